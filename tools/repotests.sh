#!/bin/sh
# Run the repository's own test suite (baseline: 171 passed, 1 always failing).
cd /repo && /venv/bin/python -m pytest -q -p no:cacheprovider --timeout=900 --continue-on-collection-errors 2>&1 | tail -4
