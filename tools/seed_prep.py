#!/usr/bin/env python3
"""Prepare scratch worktrees and prompts for independently seeded changes (round N).

usage: tools/seed_prep.py <round> <ID> [<ID> ...]
Creates /tmp/seed<round>_<ID> (git worktree of /repo HEAD) with PROPERTY.txt and PROMPT.txt.  The prompt holds
the property text only (statement, quantifier, why tests cannot settle it) plus the sites earlier rounds used.
Nothing from /verif is visible to the author."""
import json, os, subprocess, sys
ROOT = os.path.dirname(os.path.dirname(os.path.abspath(__file__)))
TEMPLATE = open(os.path.join(ROOT, 'tools', 'seed_prompt.txt')).read()
EARLIER = {
 'C01': ['f2 hoisted out of the source loop in compute_rhs', 'compute() skipping the matrix fill when a matrix exists', 'resistance of a ground-pulse load not doubled'],
 'C02': ['is_non_vertical_grounded looking at end 1 only', 'end2 of an end-2 ground pulse built from seg0', 'same_geobj by logical_or in compute_impedance_matrix'],
 'C03': ['the image leg of an end-2 ground pulse', 'f2 hoisted out of the source loop in compute_rhs', 'a tolerance in is_non_vertical_grounded'],
 'C04': ['ground sign instead of direction sign in the near-field helper', 'near-field helper arrays cached across a frequency change', 'E_phi not transposed in Far_Field_Pattern'],
 'C05': ['Wire.endpoints not refreshed by transformations', 'transformations sorted by option text', 'taper limits from the unscaled radius under --geo-scale'],
 'C06': ['is_non_vertical_grounded', 'sgn[0] instead of sgn[1] in the end-2 block of the pulse construction', 'transposed radius lookup in the thin-wire self term of vector_potential'],
 'C07': ['f2 hoisted out of the source loop in compute_rhs', 'k9 normalised with the requested far-field power', 'compute_rhs keeping the old right-hand side'],
 'C08': ['load weight doubled only for end-1 ground pulses', 'skin effect using the model-wide conductivity', 'insulation load junction pulse to a later bare wire (fix_distributed_loads)'],
 'C09': ['end_segs in the current report', 'Wire.endpoints set once and never refreshed', 'a cache of the second-end J value across solves'],
 'C10': ['e_phi scaled with the power ratio instead of its root', 'an absolute noise floor on the far field', 'a cache of the far-field pulse sum keyed by direction grid'],
 'C11': ['the sign of the y term of the circular-boundary reflection point', 'ground-pulse load doubling tied to ideal ground in compute_impedance_matrix_loads', 'reflected image of the above-ground half of ground pulses (pv.inv_ground)'],
 'C12': ['the end-matching tolerance minlen in compute_connections', 'an early return in compute_connections for one-segment wires', 'grounded-end index / self-reference test by tag for closed arcs'],
 'C13': ['the last helix point in Helix.__init__', 'the unscaled radius in compute_taper2_segments', 'geo transformations sorted by option text'],
 'C14': ['the frequency stamp of the skin-effect cache (zint_f)', 'srm as a cached_property', 'np.isclose in the frequency setter'],
 'C15': ['Mininec.cmdline_load_tag sort', 'the maximum of --taper-wire dropped in Wire.as_cmdline', 'helix radius written from the already scaled value'],
 'C16': ['Angle.angle_deg', 'np.linspace with end point in the near-field axis fix-up', 'V/m table rows sorted by (azimuth, zenith)'],
 'C17': ['the geo object lookup in register_load for all-of-object attachment', 'automatic tag numbering in Geo_Container.compute_tags', 'a stale geo_tag in the source loop of main()'],
 'C18': ['Medium.as_basic_input interface coordinate', 'the first end of emulated objects in Geobj.as_basic_input', 'Laplace coefficient units for BASIC version 13'],
 'C19': ['_Load.as_mininec caching the impedance per geo object', 'the phase unit in Excitation.as_mininec_short', 'npulse / end_segs for the J rows of the current table'],
 'C20': ['the range check in register_source', 'sorted(geo_transforms) without key', 'complex power overflow in Laplace_Load.impedance; non-finite radial radius'],
}
rnd = sys.argv[1]
props = {json.loads(l)['id']: json.loads(l) for l in open(os.path.join(ROOT, 'properties.jsonl'))}
for pid in sys.argv[2:]:
    p = props[pid]
    d = '/tmp/seed%s_%s' % (rnd, pid)
    subprocess.run(['git', '-C', '/repo', 'worktree', 'add', '--detach', d, 'HEAD'], check=True, capture_output=True)
    text = ('Property %s: %s\n\nStatement: %s\n\nQuantified over: %s\n\nWhy the existing tests cannot settle it: %s\n'
            % (pid, p['title'], p['statement'], p['quantifier']['text'], p['why_tests_cant']))
    prev = EARLIER.get(pid) or []
    if prev:
        text += ('\n\nIMPORTANT - this is round %s. Earlier attempts for this property already used these ideas: %s. '
                 'Do NOT reuse those sites or trivial variants of them; find a DIFFERENT place in the code and a different '
                 'trigger condition. Prefer defects that are harder to notice: ones that change results only slightly (a '
                 'few percent or less), or only for a rare but legitimate combination of inputs (e.g. needing three '
                 'conditions at once), or only in one output channel (one column of one table, one of several files), or '
                 'only after a particular sequence of API calls. The defect must still genuinely violate the property as '
                 'stated (state in NOTES.txt by how much and for which inputs).\n' % (rnd, '; '.join(prev)))
    open(os.path.join(d, 'PROPERTY.txt'), 'w').write(text)
    open(os.path.join(d, 'PROMPT.txt'), 'w').write(TEMPLATE.replace('{DIR}', d).replace('{PROP}', text))
    print('prepared', d)
