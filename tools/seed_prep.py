#!/usr/bin/env python3
"""Prepare scratch worktrees and prompts for independently seeded changes (round N).

usage: tools/seed_prep.py <round> <ID> [<ID> ...]
Creates /tmp/seed<round>_<ID> (git worktree of /repo HEAD) with PROPERTY.txt and PROMPT.txt.  The prompt holds
the property text only (statement, quantifier, why tests cannot settle it) plus the sites earlier rounds used.
Nothing from /verif is visible to the author."""
import json, os, subprocess, sys
ROOT = os.path.dirname(os.path.dirname(os.path.abspath(__file__)))
TEMPLATE = open(os.path.join(ROOT, 'tools', 'seed_prompt.txt')).read()
EARLIER = {
 'C01': ['f2 hoisted out of the source loop in compute_rhs', 'compute() skipping the matrix fill when a matrix exists', 'resistance of a ground-pulse load not doubled', "image half of an end-2 ground pulse along the straight continuation", "k9 normalised with ff_power (requested power)", "total power summed over delivering sources only"],
 'C02': ['is_non_vertical_grounded looking at end 1 only', 'end2 of an end-2 ground pulse built from seg0', 'same_geobj by logical_or in compute_impedance_matrix', "sgn[0] for sgn[1] when picking the other wire's segment at an end-2 junction", "same-segmentation guard comparing the two halves of the observer pulse", "thick-wire radius term applied only when the whole batch is thick (integral_i2_i3)"],
 'C03': ['the image leg of an end-2 ground pulse', 'f2 hoisted out of the source loop in compute_rhs', 'a tolerance in is_non_vertical_grounded', "exact-kernel permission in the image pass keyed on the junction pulse's main wire", "load doubling keyed on the pulse sign pattern", "absolute 1 mm tolerance in Geobj.compute_ground"],
 'C04': ['ground sign instead of direction sign in the near-field helper', 'near-field helper arrays cached across a frequency change', 'E_phi not transposed in Far_Field_Pattern', "image-pass mask by pulse sign in compute_near_field", "near-field charge term dividing by the other half's segment length", "sign of Im(dAy/dz) in the H_x curl term"],
 'C05': ['Wire.endpoints not refreshed by transformations', 'transformations sorted by option text', 'taper limits from the unscaled radius under --geo-scale', "end-2 ground pulse image point computed relative instead of absolute", "reversed composition order in Rotation_Matrix", "--geo-scale applied before rotate/translate in main()"],
 'C06': ['is_non_vertical_grounded', 'sgn[0] instead of sgn[1] in the end-2 block of the pulse construction', 'transposed radius lookup in the thin-wire self term of vector_potential', "near-field charge term dividing by the other half's segment length", "near-field second half directed along the first half (nf_helper d2)", "same_geobj by logical_or"],
 'C07': ['f2 hoisted out of the source loop in compute_rhs', 'k9 normalised with the requested far-field power', 'compute_rhs keeping the old right-hand side', "compute() skipping the matrix fill so that loads are added again", "conj() applied to the scalar product in the total power", "total power as a cached property not reset by compute()"],
 'C08': ['load weight doubled only for end-1 ground pulses', 'skin effect using the model-wide conductivity', 'insulation load junction pulse to a later bare wire (fix_distributed_loads)', "'if not load.n' in register_load (load registered twice)", "compute() skipping the matrix fill", "skin-effect frequency stamp kept on the load instead of the wire"],
 'C09': ['end_segs in the current report', 'Wire.endpoints set once and never refreshed', 'a cache of the second-end J value across solves', "npulse from conn[] in compute_connections", "sign of pulse index 0 lost in Connected_Geobj.pulse_iter", "squared distance compared with the end-matching length"],
 'C10': ['e_phi scaled with the power ratio instead of its root', 'an absolute noise floor on the far field', 'a cache of the far-field pulse sum keyed by direction grid', "pulse sum reused for all azimuths when all wires are vertical", "measure_time dropping keyword arguments when timing is on", "cached pulse positions mirrored in place by the image pass of compute_far_field"],
 'C11': ['the sign of the y term of the circular-boundary reflection point', 'ground-pulse load doubling tied to ideal ground in compute_impedance_matrix_loads', 'reflected image of the above-ground half of ground pulses (pv.inv_ground)', "radial-screen impedance mask using media_coord[-2]", "interface coordinates of linear media accumulated with cumsum", "'coord or 1e6' in the Medium constructor"],
 'C12': ['the end-matching tolerance minlen in compute_connections', 'an early return in compute_connections for one-segment wires', 'grounded-end index / self-reference test by tag for closed arcs', "sgn[0] for sgn[1] at an end-2 junction in compute_connections", "min_seglen of a tapered wire taken from its first segment", "one-sided ground test 0 <= z < eps"],
 'C13': ['the last helix point in Helix.__init__', 'the unscaled radius in compute_taper2_segments', 'geo transformations sorted by option text', "taper2 minimum overwritten by the max-limited first segment", "tag = None hoisted out of the --geo-translate loop", "Curve.scale scaling the unscaled radius"],
 'C14': ['the frequency stamp of the skin-effect cache (zint_f)', 'srm as a cached_property', 'np.isclose in the frequency setter', "ground impedance of the media cached at the first far-field request", "compute() skipping the matrix fill", "far-field default power taken from nf_power"],
 'C15': ['Mininec.cmdline_load_tag sort', 'the maximum of --taper-wire dropped in Wire.as_cmdline', 'helix radius written from the already scaled value', "--attach-load writer skipping a junction pulse whose other wire is fully loaded", "transformations written in sorted tuple order", "Medium.as_cmdline writing the interface coordinate for the first medium only"],
 'C16': ['Angle.angle_deg', 'np.linspace with end point in the near-field axis fix-up', 'V/m table rows sorted by (azimuth, zenith)', "np.unique on the near-field points when an increment is 0", "near-field grid kept when the new request is np.allclose to the previous one", "azimuth grid inheriting the integer dtype of the zenith Angle"],
 'C17': ['the geo object lookup in register_load for all-of-object attachment', 'automatic tag numbering in Geo_Container.compute_tags', 'a stale geo_tag in the source loop of main()', "'if not load.n' in register_load", "vectorised diagonal update losing a pulse named twice by one load", "vectorised compute_rhs assigning voltages to sorted pulse indices"],
 'C18': ['Medium.as_basic_input interface coordinate', 'the first end of emulated objects in Geobj.as_basic_input', 'Laplace coefficient units for BASIC version 13', "END TWO of a plain wire written with its own coordinates", "Wire.compute_ground zeroing a copy of the end points", "source phase written with %d in Excitation.as_basic_input"],
 'C19': ['_Load.as_mininec caching the impedance per geo object', 'the phase unit in Excitation.as_mininec_short', 'npulse / end_segs for the J rows of the current table', "POWER line of the source blocks printing the total power", "E(PHI) magnitude / phase columns swapped in the V/m table", "peak value of the H near field computed from the wrong vector"],
 'C20': ['the range check in register_source', 'sorted(geo_transforms) without key', 'complex power overflow in Laplace_Load.impedance; non-finite radial radius', "sweep step of exactly 0 MHz passing the frequency check", "taper2 tolerance computed before the minimum is raised (AssertionError for >= 100 segments)", "format/argument mismatch in Series_RLC_Load.as_cmdline for zero values"],
}
rnd = sys.argv[1]
props = {json.loads(l)['id']: json.loads(l) for l in open(os.path.join(ROOT, 'properties.jsonl'))}
for pid in sys.argv[2:]:
    p = props[pid]
    d = '/tmp/seed%s_%s' % (rnd, pid)
    subprocess.run(['git', '-C', '/repo', 'worktree', 'add', '--detach', d, 'HEAD'], check=True, capture_output=True)
    text = ('Property %s: %s\n\nStatement: %s\n\nQuantified over: %s\n\nWhy the existing tests cannot settle it: %s\n'
            % (pid, p['title'], p['statement'], p['quantifier']['text'], p['why_tests_cant']))
    prev = EARLIER.get(pid) or []
    if prev:
        text += ('\n\nIMPORTANT - this is round %s. Earlier attempts for this property already used these ideas: %s. '
                 'Do NOT reuse those sites or trivial variants of them; find a DIFFERENT place in the code and a different '
                 'trigger condition. Prefer defects that are harder to notice: ones that change results only slightly (a '
                 'few percent or less), or only for a rare but legitimate combination of inputs (e.g. needing three '
                 'conditions at once), or only in one output channel (one column of one table, one of several files), or '
                 'only after a particular sequence of API calls. The defect must still genuinely violate the property as '
                 'stated (state in NOTES.txt by how much and for which inputs).\n' % (rnd, '; '.join(prev)))
    open(os.path.join(d, 'PROPERTY.txt'), 'w').write(text)
    open(os.path.join(d, 'PROMPT.txt'), 'w').write(TEMPLATE.replace('{DIR}', d).replace('{PROP}', text))
    print('prepared', d)
