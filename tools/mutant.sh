#!/bin/sh
# usage: tools/mutant.sh <patch file> <property id> [<property id> ...]
# Applies the patch to a scratch copy of /repo (never to /repo itself), runs the quick
# checks against the copy, prints one line per check, removes the copy.
set -e
PATCH="$(readlink -f "$1")"; shift
HERE="$(cd "$(dirname "$0")/.." && pwd)"
SCR="$(mktemp -d /tmp/pvmut.XXXXXX)"
trap 'rm -rf "$SCR"' EXIT
mkdir -p "$SCR/repo" "$SCR/ev" "$SCR/out"
cp -r /repo/mininec "$SCR/repo/"
( cd "$SCR/repo" && patch -p1 -s < "$PATCH" ) || { echo "PATCH FAILED $PATCH"; exit 3; }
for P in "$@"; do
    set +e
    T0=$(date +%s)
    PV_REPO="$SCR/repo" PV_EVIDENCE_DIR="$SCR/ev" PV_OUT_DIR="$SCR/out" PV_NO_SHRINK=1 "$HERE/check" "$P" --tier quick > "$SCR/log.$P" 2>&1
    RC=$?
    T1=$(date +%s)
    set -e
    SIG=$(grep -m1 'signature:' "$SCR/log.$P" | sed 's/^ *signature: *//')
    echo "$(basename "$PATCH") $P rc=$RC $((T1-T0))s $SIG"
    [ "$RC" = 2 ] && tail -5 "$SCR/log.$P"
done
exit 0
