#!/bin/sh
# thorough tier of every check, one after the other (each uses all cores); one line per check
HERE="$(cd "$(dirname "$0")/.." && pwd)"
cd "$HERE"
IDS="${*:-01 02 03 04 05 06 07 08 09 10 11 12 13 14 15 16 17 18 19 20}"
for i in $IDS; do
    T0=$(date +%s)
    ./check C$i --tier thorough > /tmp/thor.$$.log 2>&1
    RC=$?
    T1=$(date +%s)
    echo "C$i rc=$RC $((T1-T0))s $(grep -c KNOWN-FINDING /tmp/thor.$$.log) known; $(grep -m1 'thorough seed' /tmp/thor.$$.log)"
    [ $RC -ne 0 ] && grep -A4 'VIOLATION\|HARNESS' /tmp/thor.$$.log | head -40
done
rm -f /tmp/thor.$$.log
