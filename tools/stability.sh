#!/bin/sh
# quick tier of every check for several seeds; prints one line per (check, seed)
HERE="$(cd "$(dirname "$0")/.." && pwd)"
cd "$HERE"
SEEDS="${*:-1 2 3 7 42}"
for S in $SEEDS; do
    for i in 01 02 03 04 05 06 07 08 09 10 11 12 13 14 15 16 17 18 19 20; do
        T0=$(date +%s)
        VERIF_SEED=$S ./check C$i --tier quick > /tmp/stab.$$.log 2>&1
        RC=$?
        T1=$(date +%s)
        echo "seed=$S C$i rc=$RC $((T1-T0))s $(grep -c KNOWN-FINDING /tmp/stab.$$.log) known; $(grep -m1 'signature:' /tmp/stab.$$.log) $(grep -m1 'smallest label-floor' /tmp/stab.$$.log | sed 's/ *smallest label-floor margin: /margin /')"
        [ $RC -ne 0 ] && grep -A3 'VIOLATION\|HARNESS' /tmp/stab.$$.log | head -12
    done
done
rm -f /tmp/stab.$$.log
