#!/bin/sh
# usage: tools/seeded_verify.sh C07 [check ids...]
# Takes /tmp/seed_<ID>/seed/{patch.diff,demo.py,NOTES.txt}, verifies the claims in a fresh scratch worktree
# (tests still pass with the change, demo fails with / passes without), stores the change under seeded/<ID>/ and
# runs the given checks (default: the property's own) against it.
ID="$1"; shift
CHECKS="${*:-$ID}"
HERE="$(cd "$(dirname "$0")/.." && pwd)"
SRC="${SEED_SRC:-/tmp/seed_$ID/seed}"
NAME="${SEED_NAME:-$ID}"
[ -f "$SRC/patch.diff" ] || { echo "no patch in $SRC"; exit 2; }
DST="$HERE/seeded/$NAME"
mkdir -p "$DST"
cp "$SRC/patch.diff" "$SRC/demo.py" "$DST/"
[ -f "$SRC/NOTES.txt" ] && cp "$SRC/NOTES.txt" "$DST/"
W="$(mktemp -d /tmp/sv.XXXXXX)"
rmdir "$W"
git -C /repo worktree add -q --detach "$W" HEAD || exit 2
trap 'git -C /repo worktree remove --force "$W" 2>/dev/null; rm -rf "$W"' EXIT
cd "$W"
PYTHONPATH="$W" /venv/bin/python "$DST/demo.py" > "$W/demo0.log" 2>&1; D0=$?
git apply "$DST/patch.diff" || { echo "patch does not apply"; exit 2; }
FILES=$(git diff --name-only | tr '\n' ' ')
PYTHONPATH="$W" /venv/bin/python "$DST/demo.py" > "$W/demo1.log" 2>&1; D1=$?
T=$(PYTHONPATH="$W" /venv/bin/python -m pytest -q -p no:cacheprovider --timeout=900 2>&1 | tail -1)
echo "$NAME: demo without change exit=$D0, with change exit=$D1; tests with change: $T; files: $FILES"
cd "$HERE"
RES=""
for C in $CHECKS; do
    L=$("$HERE/tools/mutant.sh" "$DST/patch.diff" "$C" 2>&1 | grep -v Warning | grep -v ' r = ' | head -1)
    echo "   $L"
    RES="$RES$L\n"
done
/venv/bin/python - "$ID" "$D0" "$D1" "$T" "$FILES" "$RES" "$NAME" <<'PY'
import json, sys, os
ID, d0, d1, t, files, res, NAME = sys.argv[1:8]
here = os.path.join(os.path.dirname(os.path.abspath('.')), '')
meta = {
    'breaks_property': ID,
    'origin': 'independent sub-agent given only the property text and a scratch worktree',
    'needs_to_manifest': open('seeded/%s/NOTES.txt' % NAME).read()[:3000] if os.path.exists('seeded/%s/NOTES.txt' % NAME) else '',
    'verified': {'demo_exit_without_change': int(d0), 'demo_exit_with_change': int(d1), 'repository_tests_with_change': t,
                 'files_touched': files.split()},
    'checks_run': [l for l in res.split('\\n') if l.strip()],
    'what_was_run': 'tools/seeded_verify.sh %s (fresh worktree of /repo HEAD; demo.py before/after git apply; full pytest with the change; tools/mutant.sh patch.diff <checks>)' % ID,
}
json.dump(meta, open('seeded/%s/meta.json' % NAME, 'w'), indent=1)
PY
