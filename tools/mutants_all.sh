#!/bin/sh
# Run every mutant patch against the quick check of the property directory it is filed under.
# Output: mutants/RESULTS.txt (one line per patch: patch, property, exit code, seconds, first signature)
HERE="$(cd "$(dirname "$0")/.." && pwd)"
OUT="$HERE/mutants/RESULTS.txt"
: > "$OUT.tmp"
for d in "$HERE"/mutants/C*; do
    P=$(basename "$d")
    for f in "$d"/*.patch; do
        [ -f "$f" ] || continue
        "$HERE/tools/mutant.sh" "$f" "$P" 2>&1 | grep -v Warning | grep -v '  r = ' | head -1 >> "$OUT.tmp"
    done
done
mv "$OUT.tmp" "$OUT"
