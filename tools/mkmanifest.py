#!/venv/bin/python
"""Regenerate MANIFEST.json from the property modules that exist."""
import json, os, sys, importlib
ROOT = os.path.dirname(os.path.dirname(os.path.abspath(__file__)))
sys.path.insert(0, ROOT); sys.path.insert(0, os.path.join(ROOT, '.deps'))
props = [json.loads(l) for l in open(os.path.join(ROOT, 'properties.jsonl'))]
NA = {}   # property id -> reason (only for properties that are deliberately not claimed)
checks = []
na = []
for p in props:
    pid = p['id']
    path = os.path.join(ROOT, 'pv', 'props', pid.lower() + '.py')
    if pid in NA or not os.path.exists(path):
        na.append({'property_id': pid, 'reason': NA.get(pid, 'check not built yet (work in progress, see DESIGN.md section 11)')})
        continue
    mod = importlib.import_module('pv.props.' + pid.lower())
    checks.append({
        'property_id': pid,
        'quick_cmd': './check %s --tier quick' % pid,
        'thorough_cmd': './check %s --tier thorough' % pid,
        'evidence_file': 'evidence/%s.json' % pid,
        'replay_cmd_template': './check %s --replay {path}' % pid,
        'engine': 'pv-hypothesis',
        'level_claimed': {'category': 'exploration',
                          'text': getattr(mod, 'LEVEL_TEXT', 'Generated-input search (Hypothesis, 16 sharded seeds) against an explicit oracle; establishes that the property held on every generated case, not absence of violations.'),
                          'design_ref': 'DESIGN.md section 5, ' + pid},
        'level_note': '; '.join(getattr(mod, 'ASSUMPTIONS', [])) or 'oracle code in pv/ref',
        'technique': getattr(mod, 'TECHNIQUE', 'property-based testing (Hypothesis) with reference-model / metamorphic oracle'),
    })
man = {
    'version': 1,
    'setup_cmd': 'sh ./setup.sh',
    'hooks': {'guard': 'PYMININEC_VERIF', 'enable': 'no hooks needed: all observation points are public API (Mininec, main(argv, f_err, return_mininec), report text)',
              'baseline_off_cmd': 'cd /repo && /venv/bin/python -m pytest -ra -q -p no:cacheprovider --timeout=900 --continue-on-collection-errors',
              'source_commits': [], 'add_only': True},
    'engines': [{'name': 'pv-hypothesis', 'path': 'pv/runner.py', 'serves_properties': [c['property_id'] for c in checks],
                 'kind_free_text': 'Hypothesis strategies -> JSON cases -> property function with explicit oracle; 16 worker processes with derived seeds; collect-bucket-shrink; known-finding matching'}],
    'checks': checks,
    'not_applicable': na,
    'notes': 'All checks: exit 0 = held, 1 = VIOLATION line(s), 2 = harness error. VERIF_SEED selects the seed. Replay files are plain JSON cases.',
}
json.dump(man, open(os.path.join(ROOT, 'MANIFEST.json'), 'w'), indent=1)
try:
    import jsonschema
    jsonschema.validate(man, json.load(open('/root/.vp/MANIFEST.schema.json')))
    print('MANIFEST valid: %d checks, %d not claimed' % (len(checks), len(na)))
except ImportError:
    print('written (jsonschema missing)')
