"""Coverage-guided campaign for C20: atheris (libFuzzer) drives the same argument-list grammar as the generated
search through Hypothesis' fuzz_one_input, with the package `mininec` instrumented for coverage.  Run as a
subprocess by pv.props.c20.enumerate_part (thorough tier); one JSON line per evaluated case class is appended to
--out (atexit handlers do not run under libFuzzer, so results are written as they arise).

The oracle is c20.check (inside the fuzz target): failures are recorded, never raised, so that the campaign goes on
after the first finding."""
import os
import sys
import json
import time
import argparse


def main():
    ap = argparse.ArgumentParser()
    ap.add_argument('--seed', type=int, default=1)
    ap.add_argument('--runs', type=int, default=20000)
    ap.add_argument('--seconds', type=float, default=300.0)
    ap.add_argument('--out', required=True)
    ap.add_argument('--corpus', required=True)
    a = ap.parse_args()
    import atheris
    with atheris.instrument_imports(include=['mininec']):
        from pv import build               # imports mininec from PV_REPO (instrumented)
    from pv.props import c20
    from pv.runner import case_hash
    from hypothesis import given, settings, HealthCheck

    out = open(a.out, 'a')
    stop = time.time() + a.seconds
    state = {'n': 0, 'sigs': {}, 'labels': {}, 'nt': 0, 'hashes': set()}

    @given(c20.strategy('thorough'))
    @settings(database=None, deadline=None, suppress_health_check=list(HealthCheck), max_examples=1)
    def target(case):
        if time.time() > stop:
            # libFuzzer has no wall-clock stop in atheris' -runs mode: flush and leave
            out.write(json.dumps({'done': True, 'nt_hashes': sorted(state['hashes']), **summary()}) + '\n')
            out.flush()
            os._exit(0)
        res = c20.check(case)
        state['n'] += 1
        if res.nontrivial:
            state['nt'] += 1
            state['hashes'].add(case_hash(case))
        for l in res.labels or []:
            state['labels'][l] = state['labels'].get(l, 0) + 1
        for sig, detail in res.fails or []:
            first = sig not in state['sigs']
            state['sigs'][sig] = state['sigs'].get(sig, 0) + 1
            if first or len(json.dumps(case)) < state.setdefault('size:' + sig, 1 << 30):
                state['size:' + sig] = len(json.dumps(case))
                out.write(json.dumps({'fail': sig, 'detail': str(detail)[:1500], 'case': case, 'hash': case_hash(case)}) + '\n')
                out.flush()
        if state['n'] % 500 == 0:
            out.write(json.dumps(summary()) + '\n')
            out.flush()

    def summary():
        return {'n': state['n'], 'nt': state['nt'], 'labels': state['labels'], 'counts': state['sigs']}

    os.makedirs(a.corpus, exist_ok=True)
    argv = [sys.argv[0], '-runs=%d' % a.runs, '-seed=%d' % a.seed, '-max_len=2048', '-timeout=120', '-rss_limit_mb=4096',
            '-print_final_stats=0', '-verbosity=0', a.corpus]
    atheris.Setup(argv, target.hypothesis.fuzz_one_input)
    try:
        atheris.Fuzz()
    finally:
        out.write(json.dumps({'done': True, 'nt_hashes': sorted(state['hashes']), **summary()}) + '\n')
        out.flush()


if __name__ == '__main__':
    main()
