"""Oracle self-tests run by setup: the report parser must parse every golden
report of the repository; (later) the BASIC reader must read every .mini file."""
import glob
import os
import sys

REPO = os.environ.get('PV_REPO', '/repo')


def main():
    from pv.ref import report
    bad = 0
    n = 0
    for p in sorted(glob.glob(os.path.join(REPO, 'test', '*.pout'))):
        txt = open(p).read()
        if not txt.strip() or not txt.lstrip().startswith('*' * 40):
            continue        # empty or partial golden file (ohio.pout starts at CURRENT DATA)
        if txt.count('FREQUENCY (MHZ)') != 1 or txt.index('FREQUENCY (MHZ)') > txt.index('ENVIRONMENT'):
            continue        # frequency sweep layout, compared as text by C14
        n += 1
        try:
            rep = report.parse(txt)
            assert rep['source_data'], 'no source data'
        except Exception as e:
            bad += 1
            print('report parser failed on %s: %s' % (p, e))
    print('report parser: %d golden reports, %d failures' % (n, bad))
    try:
        from pv.ref import basicreader
        nb = 0
        for p in sorted(glob.glob(os.path.join(REPO, 'test', '*.mini'))):
            nb += 1
            try:
                basicreader.read(open(p).read())
            except Exception as e:
                bad += 1
                print('BASIC reader failed on %s: %s' % (p, e))
        print('BASIC reader: %d stored inputs' % nb)
    except ImportError:
        pass
    return 1 if bad else 0


if __name__ == '__main__':
    sys.exit(main())
