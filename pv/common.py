"""helpers shared by property modules"""
import numpy as np
from . import build, rules
from .runner import Result


def solved(case, with_sources=True):
    m = build.model(case, with_sources)
    m.compute()
    return m


def cond(m):
    try:
        return float(np.linalg.cond(m.Z))
    except Exception:
        return float('inf')


def gate(c, base=5e-4):
    """tolerance rule of C03/C05/C06: base up to cond 1e3, 5e-7*cond up to 1e5, excluded beyond"""
    if not np.isfinite(c) or c > 1e5:
        return None
    return max(base, base * c / 1e3)


def far(m, thetas, phis, **kw):
    """far field for explicit lists of angles by single-angle calls is slow; use regular grids"""
    raise NotImplementedError


def kinds_of_sources(case):
    return [s.get('_kind') for s in case.get('sources') or []]


def base_labels(case):
    info = case.get('_info') or {}
    labels = []
    env = case.get('env') or {'kind': 'free'}
    labels.append('env-' + env['kind'])
    if info.get('template'):
        labels.append('tmpl-' + info['template'])
    if info.get('tapered'):
        labels.append('tapered')
    if info.get('sheared'):
        labels.append('sheared')
    if info.get('tag_style'):
        labels.append('tags-' + info['tag_style'])
    if any(o.get('_rev') for o in case['objs']):
        labels.append('reversed-wire')
    for k in set(kinds_of_sources(case)):
        if k:
            labels.append('src-' + k)
    if len(case.get('sources') or []) > 1:
        labels.append('multi-source')
    return labels


def annotate(case):
    """(re)compute the helper keys '_idx' / '_kind' of sources from the reference topology
    (they are stripped from stored cases)"""
    if not isinstance(case, dict) or 'objs' not in case or not case.get('sources'):
        return case
    if all('_idx' in s for s in case['sources']):
        return case
    from . import gen
    topo, objs = gen.stand_in_topology(case)
    for s in case['sources']:
        p = s['pulse']
        if isinstance(p, dict):
            w = [i for i, o in enumerate(objs) if o['tag'] == p['tag']][0]
            s['_idx'] = topo.per_obj[w][p['k']].idx
        else:
            s['_idx'] = int(p)
        s['_kind'] = topo.pulses[s['_idx']].kind
    return case


def junction_ratio_violation(topo, max_ratio=2.0):
    """documented rule: adjacent segments differ in length by at most a factor 2 - applied to all segments
    that meet at a junction; for tapered wires the real segment lengths are only known from the model
    (reference topology built with them)"""
    import numpy as np
    for j in topo.junctions:
        if len(j) < 2:
            continue
        ls = []
        for (w, e) in j:
            s = topo.objs[w]['segs']
            ls.append(float(np.linalg.norm(s[1] - s[0]) if e == 0 else np.linalg.norm(s[-1] - s[-2])))
        if max(ls) > max_ratio * min(ls) * (1 + 1e-6):
            return 'segments meeting at a junction differ in length by more than a factor 2 (tapered wire)'
    return None


def segment_rule_violation(topo, lam, lo=1 / 200.0, hi=1 / 10.0, seg_r=8.0):
    """segment length within lambda/200..lambda/10 and >= 8 radii, on the real segments (needed for tapered
    wires, whose segments are only known from the model)"""
    import numpy as np
    for o in topo.objs:
        l = np.linalg.norm(np.diff(o['segs'], axis=0), axis=1)
        if l.min() < lo * lam * (1 - 1e-6) or l.max() > hi * lam * (1 + 1e-6):
            return 'tapered segment length outside lambda/200..lambda/10'
        if l.min() < seg_r * o['r'] * (1 - 1e-6):
            return 'tapered segment shorter than 8 radii'
    return None


def net_power_ok(m, rel=1e-9):
    """gains are normalised with the net power Re(sum V I*)/2.  For an almost purely reactive feed that number is the
    small difference of large terms and carries a relative rounding error of 1e-16 * apparent / net power; relations
    that compare gains of two different solves need it to be well defined"""
    app = sum(0.5 * abs(s.voltage * s.current) for s in m.sources)
    return m.power > rel * app


def port_amp(m, src):
    """with several sources the impedance of a port is V / (current caused by ALL sources); a port that carries
    little current amplifies every admissible difference of the currents by max|I| / |I_port|"""
    import numpy as np
    if len(m.sources) < 2:
        return 1.0
    imax = float(np.abs(np.array(m.current)).max())
    return max(1.0, imax / max(abs(src.current), 1e-300))


def gain_tol_db(models, tol, base_db=0.01):
    """tolerance in dB for a gain compared between two solves whose currents may differ by `tol` (relative to the
    largest current): the radiated field moves by up to 2 tol in power, the normalising net power Re(sum V I*)/2 by
    tol * apparent / net power - which dominates for reactive feeds and for sources that exchange power"""
    import math
    worst = 1.0
    for m in models:
        app = sum(0.5 * abs(s.voltage * s.current) for s in m.sources)
        worst = max(worst, app / m.power if m.power > 0 else 1e30)
    return max(base_db * tol / 5e-4, 10 * math.log10(1 + tol * (2 + worst)))
