"""helpers shared by property modules"""
import numpy as np
from . import build, rules
from .runner import Result


def solved(case, with_sources=True):
    m = build.model(case, with_sources)
    m.compute()
    return m


def cond(m):
    try:
        return float(np.linalg.cond(m.Z))
    except Exception:
        return float('inf')


def gate(c, base=5e-4):
    """tolerance rule of C03/C05/C06: base up to cond 1e3, 5e-7*cond up to 1e5, excluded beyond"""
    if not np.isfinite(c) or c > 1e5:
        return None
    return max(base, base * c / 1e3)


def far(m, thetas, phis, **kw):
    """far field for explicit lists of angles by single-angle calls is slow; use regular grids"""
    raise NotImplementedError


def kinds_of_sources(case):
    return [s.get('_kind') for s in case.get('sources') or []]


def base_labels(case):
    info = case.get('_info') or {}
    labels = []
    env = case.get('env') or {'kind': 'free'}
    labels.append('env-' + env['kind'])
    if info.get('template'):
        labels.append('tmpl-' + info['template'])
    if info.get('tapered'):
        labels.append('tapered')
    if info.get('tag_style'):
        labels.append('tags-' + info['tag_style'])
    if any(o.get('_rev') for o in case['objs']):
        labels.append('reversed-wire')
    for k in set(kinds_of_sources(case)):
        if k:
            labels.append('src-' + k)
    if len(case.get('sources') or []) > 1:
        labels.append('multi-source')
    return labels
