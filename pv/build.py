"""case dict -> argv / model.  The only module (besides props) that touches mininec."""
import io
import os
import sys
import contextlib
import numpy as np

REPO = os.environ.get('PV_REPO', '/repo')
if sys.path[0] != REPO:
    sys.path.insert(0, REPO)
import mininec                      # noqa: E402
import mininec.mininec as mm        # noqa: E402

assert os.path.realpath(mininec.__file__).startswith(os.path.realpath(REPO) + os.sep), \
    'mininec imported from %s, expected under %s' % (mininec.__file__, REPO)

from .ref import geometry as rgeo   # noqa: E402
from .ref import topology as rtop   # noqa: E402


def fl(x):
    """shortest exact decimal representation of a float"""
    return repr(float(x))


def cplx(v):
    re, im = float(v[0]), float(v[1])
    sgn = '-' if str(im).startswith('-') else '+'
    return '%r%s%rj' % (re, sgn, abs(im))


def obj_args(o):
    t = o['type']
    tag = [] if o.get('tag') is None else [str(int(o['tag']))]
    if t == 'wire':
        v = tag + [str(int(o['n']))] + [fl(x) for x in list(o['p1']) + list(o['p2'])] + [fl(o['r'])]
        return ['--wire=' + ','.join(v)]
    if t == 'arc':
        v = tag + [str(int(o['n'])), fl(o['R']), fl(o['a1']), fl(o['a2']), fl(o['r'])]
        return ['--arc=' + ','.join(v)]
    v = tag + [str(int(o['n'])), fl(o['len']), fl(o['turn']), fl(o['r']), fl(o['rx1']), fl(o['ry1'])]
    if o.get('rx2') is not None:
        v += [fl(o['rx2']), fl(o['ry2'])]
    return ['--helix=' + ','.join(v)]


def env_args(env):
    if env is None or env['kind'] == 'free':
        return []
    if env['kind'] == 'ideal':
        return ['--medium=0,0,0']
    a = []
    media = env['media']
    for i, m in enumerate(media):
        v = [fl(m['eps']), fl(m['sigma']), fl(m.get('height', 0.0))]
        if i < len(media) - 1:
            v.append(fl(m['coord']))
        a.append('--medium=' + ','.join(v))
    if len(media) > 1 or env.get('boundary') == 'circular':
        a.append('--boundary=' + env.get('boundary', 'linear'))
    if env.get('radials'):
        a.append('--radial-count=%d' % env['radials']['n'])
        a.append('--radial-radius=' + fl(env['radials']['r']))
    return a


def pulse_arg(p):
    if isinstance(p, dict):
        return '%d,%d' % (p['k'] + 1, p['tag'])
    return str(int(p) + 1)


def load_args(loads, attach_perm=None):
    """loads: list of dict(kind, ..., attach=[...]).  Lumped kinds are numbered by
    the program in the order: --load, --rlc-load, --trap-load, laplace; we emit
    them grouped that way and compute the numbers accordingly."""
    a = []
    order = {'z': 0, 'rlc': 1, 'trap': 2, 'laplace': 3}
    lumped = [l for l in loads if l['kind'] in order]
    lumped = sorted(enumerate(lumped), key=lambda il: (order[il[1]['kind']], il[0]))
    att = []
    for num, (_, l) in enumerate(lumped):
        k = l['kind']
        if k == 'z':
            a.append('--load=' + cplx(l['z']))
        elif k == 'rlc':
            a.append('--rlc-load=' + ','.join('' if x is None else fl(x) for x in (l['R'], l['L'], l['C'])))
        elif k == 'trap':
            a.append('--trap-load=' + ','.join(fl(x) for x in (l['R'], l['L'], l['C'])))
        else:
            a.append('--laplace-load-a=' + ','.join(fl(x) for x in l['a']))
            a.append('--laplace-load-b=' + ','.join(fl(x) for x in l['b']))
        for at in l['attach']:
            if at == 'all':
                att.append('--attach-load=%d,all' % (num + 1))
            elif isinstance(at, dict) and at.get('all'):
                att.append('--attach-load=%d,all,%d' % (num + 1, at['tag']))
            elif isinstance(at, dict):
                att.append('--attach-load=%d,%d,%d' % (num + 1, at['k'] + 1, at['tag']))
            else:
                att.append('--attach-load=%d,%d' % (num + 1, at + 1))
    # the attachments may be given in any order (the order decides in which order the program registers the loads)
    if attach_perm:
        idx = [i for i in attach_perm if i < len(att)] + [i for i in range(len(att)) if i not in attach_perm]
        att = [att[i] for i in idx]
    a += att
    for l in loads:
        k = l['kind']
        tg = '' if l.get('tag') is None else ',%d' % l['tag']
        if k == 'skin_c':
            a.append('--skin-effect-conductivity=' + fl(l['v']) + tg)
        elif k == 'skin_r':
            a.append('--skin-effect-resistivity=' + fl(l['v']) + tg)
        elif k == 'ins':
            a.append('--insulation-load=' + fl(l['radius']) + ',' + fl(l['eps']) + tg)
    return a


def argv_of(case, with_sources=True):
    a = ['-f', fl(case['f'])]
    for o in case['objs']:
        a += obj_args(o)
    for o in case['objs']:
        if o['type'] == 'wire' and o.get('taper'):
            v = [str(o['_tag']), str(o['taper'])]
            if o.get('tmin') is not None or o.get('tmax') is not None:
                v.append(fl(o.get('tmin') or 0.0))
                if o.get('tmax') is not None:
                    v.append(fl(o['tmax']))
            a.append('--taper-wire=' + ','.join(v))
    for x in case.get('xforms') or []:
        v = [fl(x['key'])] + [fl(c) for c in x['v']]
        if x.get('tag') is not None:
            v.append(str(x['tag']))
        a.append('--geo-%s=%s' % (x['kind'], ','.join(v)))
    for s in case.get('scales') or []:
        v = [fl(s['f'])] + ([str(s['tag'])] if s.get('tag') is not None else [])
        a.append('--geo-scale=' + ','.join(v))
    a += env_args(case.get('env'))
    if with_sources:
        for s in case.get('sources') or []:
            a.append('--excitation-pulse=' + pulse_arg(s['pulse']))
            a.append('--excitation-voltage=' + cplx(s['v']))
    a += load_args(case.get('loads') or [], case.get('attach_perm'))
    if case.get('timing'):
        # time measurement switched on (prints to stderr); results must not depend on it
        a.append('--timing')
    return a


def assign_tags(case):
    """annotate each object with '_tag' (its effective tag) - pure reference computation"""
    for t, o in rgeo.order_objects(case['objs']):
        o['_tag'] = t
    return case


class Rejected(Exception):
    pass


def run_main(argv, return_mininec=True):
    """returns (retval, stdout, stderr) ; exceptions propagate"""
    out, err, err2 = io.StringIO(), io.StringIO(), io.StringIO()
    with contextlib.redirect_stdout(out), contextlib.redirect_stderr(err2):
        r = mm.main(list(argv), f_err=err, return_mininec=return_mininec)
    return r, out.getvalue(), err.getvalue() + err2.getvalue()


def model(case, with_sources=True):
    """Build the model through the command-line front end.  Raises Rejected if the
    program rejects the description (diagnostic)."""
    assign_tags(case)
    argv = argv_of(case, with_sources)
    try:
        r, out, err = run_main(argv, True)
    except AssertionError:
        import traceback
        tb = traceback.extract_tb(sys.exc_info()[2])
        if tb and tb[-1].filename.endswith('taper.py'):
            # taper preconditions are assertions in the code; such inputs are
            # outside the domain of the physics properties (C13/C20 judge them)
            raise Rejected('taper assertion line %d' % tb[-1].lineno)
        if tb and tb[-1].name == 'add' and tb[-1].filename.endswith('mininec.py'):
            # both ends of one object joining the same earlier end (closed arc attached to
            # an earlier object, duplicate objects): the program stops with an assertion;
            # there is no model to judge - reported by C20
            raise Rejected('crash: Connected_Geobj.add assertion (judged by C20)')
        raise
    if not isinstance(r, mm.Mininec):
        raise Rejected((out + err).strip())
    return r


def ref_objs(case, m=None):
    """objects in tag order for the reference topology.  Plain wires, arcs and
    helices are segmented by the reference; tapered wires take their segment end
    points from the model m (validated separately by C13)."""
    items = rgeo.transformed(case)
    out = []
    for i, it in enumerate(items):
        o = it['obj']
        if o['type'] == 'wire':
            if o.get('taper'):
                if m is None:
                    raise ValueError('tapered wire needs the model')
                g = m.geo[i]
                segs = np.array([s.p1 for s in g.segments] + [g.segments[-1].p2])
            else:
                segs = rgeo.equal_segments(it['pts'][0], it['pts'][1], o['n'])
        else:
            segs = it['pts']
        out.append(dict(segs=np.array(segs, float), r=it['r'], tag=it['tag'], obj=o))
    return out


def has_ground(case):
    return case.get('env') is not None and case['env']['kind'] != 'free'


def ref_topology(case, m=None):
    return rtop.build(ref_objs(case, m), has_ground(case))


def attach_sequence(loads, attach_perm=None):
    """the --attach-load options of the lumped loads in the order they are emitted:
    list of (load number 1.. in the program's numbering, index of the load in `loads`, attachment spec)"""
    order = {'z': 0, 'rlc': 1, 'trap': 2, 'laplace': 3}
    lumped = [(i, l) for i, l in enumerate(loads) if l['kind'] in order]
    lumped = sorted(lumped, key=lambda il: (order[il[1]['kind']], il[0]))
    seq = []
    for num, (i, l) in enumerate(lumped):
        for at in l['attach']:
            seq.append((num + 1, i, at))
    if attach_perm:
        idx = [i for i in attach_perm if i < len(seq)] + [i for i in range(len(seq)) if i not in attach_perm]
        seq = [seq[i] for i in idx]
    return seq
