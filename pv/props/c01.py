"""C01 Power balance: source power = load dissipation + radiated far-field power."""
import math
import numpy as np
from hypothesis import strategies as st

from .. import gen, rules, build, common
from ..runner import Result
from ..ref import loads as rl

ID = 'C01'
RULE = ('Generated: antennas obeying the documented modelling rules (wires, tapered wires, arcs, helices in arbitrary '
        'position; junctions of 2..4 wires at >= 55 deg; segments lambda/200..lambda/10 and >= 8 radii, adjacent '
        'segments within a factor 2; free space, ideal ground, 1..3 real media, radials), 1..3 complex sources, '
        '0..3 loads of all kinds (lumped complex, series RLC, trap, Laplace, skin effect, insulation).  Oracle: '
        'P_in = sum Re(V I*)/2, P_load = sum Re(Z_L) |I|^2 / 2 with Z_L from the reference circuit formulas, '
        'P_rad = P_in/(4 pi) * integral of 10^(dBi_total/10) by Gauss-Legendre in cos(theta) x uniform phi (grid '
        'doubled when within a factor 2 of the margin); |P_in - P_load - P_rad| <= 1.5 % of sum |V I*|/2; over real '
        'ground only P_rad + P_load - P_in <= margin.  Non-trivial = junction, y-component, ground, > 1 source or a load.')
BUDGET = {'quick': {'examples': 480, 'wall': 200}, 'thorough': {'examples': 20000, 'wall': 1500}}
ASSUMPTIONS = ['pattern integral by quadrature of the program\'s own dBi table (32 x 48 nodes, doubled near the margin)',
               'load dissipation from reference load formulas (pv/ref/loads.py)']
LABEL_FLOORS = {'power-factor>=0.1': 0.3, 'env-ideal': 0.15, 'env-real': 0.15, 'multi-source': 0.3, 'loaded': 0.3, 'curve': 0.08,
                'absorbing-source': 0.05, 'grounded-end2': 0.03, 'load-on-gnd': 0.005, 'power-requested': 0.15}


@st.composite
def tapered_v(draw):
    """a V / bent dipole whose two arms are tapered towards or away from the apex, each arm given in either direction
    (tapering the feed region is the usual reason to taper): every end-to-end combination of two tapered wires"""
    f = draw(gen.frequency())
    lam = gen.C_MHZ_M / f
    env = draw(gen.environment(('free', 'ideal')))
    d1 = np.array([draw(st.floats(-1, 1)), draw(st.floats(-1, 1)), draw(st.floats(-0.4, 0.4))])
    d2 = np.array([draw(st.floats(-1, 1)), draw(st.floats(-1, 1)), draw(st.floats(-0.4, 0.4))])
    if np.linalg.norm(d1) < 0.2 or np.linalg.norm(d2) < 0.2:
        d1, d2 = np.array([1.0, 0.2, 0.1]), np.array([-1.0, 0.3, -0.1])
    d1, d2 = d1 / np.linalg.norm(d1), d2 / np.linalg.norm(d2)
    apex = np.array([0.0, 0.0, 0.0 if env['kind'] == 'free' else draw(st.floats(0.4, 1.0)) * lam])
    objs = []
    for d in (d1, d2):
        n = draw(st.integers(4, 12))
        L = draw(st.floats(0.15, 0.45)) * lam
        r = gen.r6(lam * draw(gen.logf(2e-5, 5e-4)))
        tip = apex + d * L
        towards_apex_fine = draw(st.booleans())
        rev = draw(st.booleans())            # given tip -> apex
        p1, p2 = (tip, apex) if rev else (apex, tip)
        fine_at = 2 if (rev == towards_apex_fine) else 1
        o = dict(type='wire', n=n, p1=[gen.r6(x) for x in p1], p2=[gen.r6(x) for x in p2], r=r, tag=None,
                 taper=fine_at, tmin=gen.r6(max(12 * r, lam / 180.0)), tmax=gen.r6(lam / 11.0), _rev=rev)
        objs.append(o)
    case = {'f': f, 'env': env, 'objs': objs, 'xforms': [], 'scales': [], 'sources': [], 'loads': []}
    draw(gen.sources(case, 1, 2))
    case['_info'] = dict(template='tapered-v', tag_style='auto', tapered=True)
    return case


@st.composite
def case_strategy(draw, big=False):
    u0 = draw(st.integers(0, 7))
    if u0 == 7:
        case = draw(tapered_v())
    elif u0 == 0:
        case = draw(gen.curve_antenna(env_kinds=('free', 'ideal', 'real'), nsrc=(1, 3)))
    else:
        case = draw(gen.antenna(env_kinds=('free', 'ideal', 'real'), max_wires=4, max_seg=7 if not big else 12,
                                nsrc=(1, 3), taper_prob=0.1, star=1,
                                seg_lo=draw(st.sampled_from([1 / 200., 1 / 40., 1 / 25.]))))
    topo, objs = gen.stand_in_topology(case)
    tagsl = [o['tag'] for o in objs]
    lds = []
    for i in range(draw(st.sampled_from([0, 0, 1, 1, 2, 3]))):
        kind = draw(st.sampled_from(['lumped', 'lumped', 'skin', 'ins']))
        if kind == 'lumped':
            l = draw(gen.lumped_load(kinds=('z', 'rlc', 'trap', 'laplace')))
            gp = [p.idx for p in topo.pulses if p.kind == 'gnd']
            if gp and draw(st.integers(0, 2)) == 0:
                l['attach'] = [draw(st.sampled_from(gp))]
            else:
                l['attach'] = [draw(st.integers(0, len(topo.pulses) - 1))]
            if draw(st.integers(0, 4)) == 0:
                l['attach'] = l['attach'] * 2          # attached twice: the load appears twice, in series
            lds.append(l)
        elif kind == 'skin' and not any(x['kind'].startswith('skin') for x in lds):
            lds.append({'kind': 'skin_c', 'v': gen.r6(draw(gen.logf(1e4, 1e8))), 'tag': draw(st.sampled_from([None] + tagsl))})
        elif kind == 'ins' and not any(x['kind'] == 'ins' for x in lds):
            tg = draw(st.sampled_from([None] + tagsl))
            rr = max(o['obj']['r'] for o in objs) if tg is None else [o['obj']['r'] for o in objs if o['tag'] == tg][0]
            lds.append({'kind': 'ins', 'radius': gen.r6(rr * draw(st.floats(1.2, 3))), 'eps': gen.r6(draw(st.floats(1.0, 6.0))), 'tag': tg})
    case['loads'] = lds
    case['ffpwr'] = gen.r6(draw(gen.logf(1e-3, 1e5))) if draw(st.integers(0, 2)) == 0 else None
    return case


def strategy(tier):
    return case_strategy(big=tier == 'thorough')


def radiated_fraction(m, ground, nth, nph, pwr=None):
    """(1/4pi) * integral of G over the sphere / upper hemisphere"""
    x, w = np.polynomial.legendre.leggauss(nth)
    if ground:
        x = (x + 1) / 2
        w = w / 2
    A = build.mm.Angle
    tot = 0.0
    for xi, wi in zip(x, w):
        th = math.degrees(math.acos(xi))
        if pwr:
            # the gain in dBi does not depend on a power level requested for the table in V/m
            m.compute_far_field(A(th, 0, 1), A(0.0, 360.0 / nph, nph), pwr=pwr, dist=1000.0)
        else:
            m.compute_far_field(A(th, 0, 1), A(0.0, 360.0 / nph, nph))
        g = np.array(m.far_field.gain)[0, :, 2]
        lin = np.where(g > -900, 10 ** (g / 10), 0.0)
        tot += wi * lin.mean() * 2 * math.pi
    return tot / (4 * math.pi)


def load_power(case, m, topo, I):
    f = case['f']
    P = 0.0
    robjs = topo.objs
    # lumped
    order = {'z': 0, 'rlc': 1, 'trap': 2, 'laplace': 3}
    for l in case['loads']:
        if l['kind'] in order:
            z = rl.lumped(l, f)
            for at in l['attach']:
                P += 0.5 * z.real * abs(I[at]) ** 2
    # distributed (skin effect only dissipates)
    for p in topo.pulses:
        for (ow, os_, _), leglen, is_img in zip(p.legs, (p.l0, p.l1),
                                                 (p.kind == 'gnd' and p.gnd_end == 0, p.kind == 'gnd' and p.gnd_end == 1)):
            if is_img:
                continue
            sg = None
            for l in case['loads']:
                if l['kind'] in ('skin_c', 'skin_r') and (l.get('tag') is None or l['tag'] == robjs[ow]['tag']):
                    sg = l['v'] if l['kind'] == 'skin_c' else 1.0 / l['v']
            if sg:
                zs, _ = rl.skin_per_length(f, robjs[ow]['obj']['r'], sg)
                P += 0.5 * zs.real * (leglen / 2.0) * abs(I[p.idx]) ** 2
    return P


def check(case):
    why = rules.check(case)
    if why:
        return Result(skipped=why)
    labels = common.base_labels(case)
    try:
        m = common.solved(case)
    except build.Rejected as e:
        return Result(skipped='rejected: ' + str(e)[:50])
    topo = build.ref_topology(case, m)
    why = common.junction_ratio_violation(topo) or common.segment_rule_violation(topo, 299.8 / case['f'])
    if why:
        return Result(skipped=why)
    c = common.cond(m)
    if not np.isfinite(c) or c > 1e5:
        return Result(skipped='condition number above 1e5')
    env = case['env']['kind']
    ground = env != 'free'
    I = np.array(m.current)
    V = [complex(*s['v']) for s in case['sources']]
    pin = sum(0.5 * (v * np.conj(I[s['_idx']])).real for v, s in zip(V, case['sources']))
    app = sum(0.5 * abs(v * I[s['_idx']]) for v, s in zip(V, case['sources']))
    if abs(m.power - pin) > 1e-9 * app:
        return Result(fails=[('total-power', 'program total power %r, sum of Re(V I*)/2 = %r' % (m.power, pin))], labels=labels)
    if not pin > 1e-6 * app:
        return Result(skipped='sources deliver no net power (gain normalisation undefined)')
    labels.append('power-factor>=0.1' if pin >= 0.1 * app else 'power-factor<0.1')
    pl = load_power(case, m, topo, I)
    nt = ground or len(V) > 1 or bool(case['loads']) or any(p.kind == 'junc' for p in topo.pulses)
    if case['loads']:
        labels.append('loaded')
        if any(topo.pulses[a].kind == 'gnd' for l in case['loads'] for a in l.get('attach', []) if isinstance(a, int)):
            labels.append('load-on-gnd')
        for l in case['loads']:
            labels.append('load-' + l['kind'])
    if any(o['obj']['type'] != 'wire' for o in topo.objs):
        labels.append('curve')
    if any(0.5 * (v * np.conj(I[s['_idx']])).real < 0 for v, s in zip(V, case['sources'])):
        labels.append('absorbing-source')
    if any(e == 1 for (_, e) in topo.grounded):
        labels.append('grounded-end2')
    margin = 0.015 * app
    ffp = case.get('ffpwr')
    if ffp:
        labels.append('power-requested')
    frac = radiated_fraction(m, ground, 32, 48, ffp)
    prad = pin * frac
    imb = pin - pl - prad
    if abs(abs(imb) - margin) < 0.5 * margin or abs(imb) > margin:
        frac = radiated_fraction(m, ground, 64, 96, ffp)
        prad = pin * frac
        imb = pin - pl - prad
    fails = []
    detail = ('P_in %.6g, P_load %.6g, P_rad %.6g (pattern integral %.5f): imbalance %.3g %% of the apparent power %.6g'
              % (pin, pl, prad, frac, 100 * imb / app, app))
    # stress classes in which the thin-wire approximations of the method are known to be at their limit
    stress = []
    for j in topo.junctions:
        if len(j) >= 2:
            rr = [topo.objs[w]['r'] for (w, _) in j]
            if max(rr) > 3 * min(rr):
                stress.append('radius-step>3-at-junction')
    for s in case['sources']:
        p = topo.pulses[s['_idx']]
        if p.kind != 'gnd' and (max(p.l0, p.l1) > 1.3 * min(p.l0, p.l1) or max(p.r0, p.r1) > 1.3 * min(p.r0, p.r1)):
            stress.append('feed-on-unequal-halves')
    if any(min(p.l0 / p.r0, p.l1 / p.r1) < 10 for p in topo.pulses):
        stress.append('segment<10-radii')
    for x in set(stress):
        labels.append('stress:' + x)
    # a fourth class, attributed only together with the cause-removal test below: a junction sharper than 60 degrees
    # of wires thicker than 1e-4 wavelength (the exact-kernel criterion of the method at sharp junctions, cf. the
    # C06 finding F-C06c)
    acute_thick = False
    lam_ = 299.8 / case['f']
    for j in topo.junctions:
        if len(j) >= 2 and max(topo.objs[w]['r'] for (w, _) in j) > 1e-4 * lam_:
            dirs_ = []
            for (w, e_) in j:
                sg_ = topo.objs[w]['segs']
                d_ = (sg_[1] - sg_[0]) if e_ == 0 else (sg_[-2] - sg_[-1])
                dirs_.append(d_ / np.linalg.norm(d_))
            for a_ in range(len(dirs_)):
                for b_ in range(a_):
                    if dirs_[a_] @ dirs_[b_] > 0.5:
                        acute_thick = True
    if acute_thick:
        labels.append('stress:acute-thick-junction')
    cls = ''
    bad = (-imb > margin) if env == 'real' else (abs(imb) > margin)
    if bad and any(l['kind'] == 'ins' for l in case['loads']):
        # classification only: known defect F-C08c (exact-kernel self term of an insulated wire thicker than
        # 1e-4 wavelength uses the bare radius).  Recompute with the self term on the equivalent radius.
        try:
            m3 = build.model(case)
            for g in m3.geo:
                for sg_ in g.segments:
                    sg_.i6 = (1 + np.log(16 * g.r / sg_.seg_len)) / np.pi / g.r
            m3.pulses.reset()
            m3.compute()
            I3 = np.array(m3.current)
            pin3 = sum(0.5 * (v * np.conj(I3[s['_idx']])).real for v, s in zip(V, case['sources']))
            app3 = sum(0.5 * abs(v * I3[s['_idx']]) for v, s in zip(V, case['sources']))
            imb3 = pin3 - load_power(case, m3, topo, I3) - pin3 * radiated_fraction(m3, ground, 32, 48)
            ok3 = (-imb3 <= 0.015 * app3) if env == 'real' else (abs(imb3) <= 0.015 * app3)
            if ok3:
                cls = ':insulated-thick-wire:self-term-uses-bare-radius'
            elif stress and abs(imb3) <= 0.25 * app3:
                # what remains after removing F-C08c is within the stress-class finding F-C01
                cls = ':remaining-within-25-percent:' + '+'.join(sorted(set(stress))) + ':insulated-thick-wire:self-term-uses-bare-radius'
        except Exception:
            pass
    if not cls and stress and abs(imb) <= 0.25 * app:
        cls = ':within-25-percent:' + '+'.join(sorted(set(stress)))
    elif not cls and (stress or (acute_thick and abs(imb) <= 0.25 * app)) and bad:
        # beyond the cap (and always for the acute-thick-junction class): attributed to the thin-wire limit only if
        # the same structure with thin wires (all radii <= 1e-5 wavelength, equal at the junctions) balances within 5 %
        if not stress:
            stress = ['acute-thick-junction']
        try:
            thin = {k_: v_ for k_, v_ in case.items()}
            thin['objs'] = [dict(o_) for o_ in case['objs']]
            # (distributed loads depend on the radius: the thin version keeps the lumped loads only)
            thin['loads'] = [l_ for l_ in case['loads'] if 'attach' in l_]
            rmin = min(min(o_['r'] for o_ in thin['objs']), 1e-5 * 299.8 / case['f'])
            for o_ in thin['objs']:
                o_['r'] = rmin
            m4 = common.solved(thin)
            I4 = np.array(m4.current)
            pin4 = sum(0.5 * (v * np.conj(I4[s['_idx']])).real for v, s in zip(V, case['sources']))
            app4 = sum(0.5 * abs(v * I4[s['_idx']]) for v, s in zip(V, case['sources']))
            imb4 = pin4 - load_power(thin, m4, topo, I4) - pin4 * radiated_fraction(m4, ground, 32, 48)
            if pin4 > 1e-6 * app4 and abs(imb4) <= 0.05 * app4:
                cls = ':within-25-percent:thin-version-balances:' + '+'.join(sorted(set(stress)))
        except Exception:
            pass
    # (cap of what is attributed to F-C01c: 10 %.  Observed 8.1 % for a grounded half loop of 3 + 3 segments of lambda / 27,
    # radius 3.4e-4 lambda, apex 55 degrees, fed on its ground pulse; 0.4 % with 6 + 6 segments, 0.2 % with thin wires)
    if bad and not cls and abs(imb) <= 0.10 * app and not any(l['kind'] == 'ins' for l in case['loads']):
        # classification only (finding F-C01c): discretisation error at the coarse end of the documented rules.  The
        # same antenna with every object divided into twice as many (equal) segments, sources and lumped loads kept at
        # their positions: attributed to the discretisation only if the imbalance falls to less than half
        try:
            fine = {k_: v_ for k_, v_ in case.items()}
            fine['objs'] = [dict(o_, n=2 * o_['n'], taper=0, tmin=None, tmax=None) if o_['type'] == 'wire' else dict(o_, n=2 * o_['n'])
                            for o_ in case['objs']]
            tf_, _ = gen.stand_in_topology(fine)
            tb_, _ = gen.stand_in_topology(case)

            def nearest(ix):
                pt = topo.pulses[ix].pt
                return int(np.argmin([np.linalg.norm(q.pt - pt) for q in tf_.pulses]))
            fine['sources'] = [dict(s_, pulse=nearest(s_['_idx']), _idx=nearest(s_['_idx'])) for s_ in case['sources']]
            fine['loads'] = [dict(l_, attach=[nearest(a_) for a_ in l_['attach']]) if 'attach' in l_ else dict(l_) for l_ in case['loads']]
            m6 = common.solved(fine)
            t6 = build.ref_topology(fine, m6)
            I6 = np.array(m6.current)
            pin6 = sum(0.5 * (v * np.conj(I6[s_['_idx']])).real for v, s_ in zip(V, fine['sources']))
            app6 = sum(0.5 * abs(v * I6[s_['_idx']]) for v, s_ in zip(V, fine['sources']))
            imb6 = pin6 - load_power(fine, m6, t6, I6) - pin6 * radiated_fraction(m6, ground, 32, 48)
            bad6 = (-imb6 > 0.5 * abs(imb) / app * app6) if env == 'real' else (abs(imb6) > 0.5 * abs(imb) / app * app6)
            if pin6 > 1e-6 * app6 and not bad6:
                cls = ':converges-under-refinement'
        except Exception:
            pass
    if env == 'real' and -imb > margin and not cls:
        # classification only (finding F-C01b): the method solves the currents over an IDEAL ground and applies the
        # reflection coefficients of the real ground to the far field only.  For horizontal currents low over a poor
        # reflector the image then cancels less radiation than the input power (taken from the ideal-ground solve)
        # accounts for.  Attributed to this only if (1) the same antenna balances over ideal ground and (2) an
        # independent reflection-coefficient model reproduces the reported real-ground far field of these currents
        try:
            from ..ref import fields as rf_
            ideal = {k_: v_ for k_, v_ in case.items()}
            ideal['env'] = {'kind': 'ideal'}
            m5 = common.solved(ideal)
            I5 = np.array(m5.current)
            pin5 = sum(0.5 * (v * np.conj(I5[s['_idx']])).real for v, s in zip(V, case['sources']))
            app5 = sum(0.5 * abs(v * I5[s['_idx']]) for v, s in zip(V, case['sources']))
            imb5 = pin5 - load_power(ideal, m5, topo, I5) - pin5 * radiated_fraction(m5, True, 32, 48)
            ok1 = abs(imb5) <= 0.015 * app5 and np.abs(I5 - I).max() <= 1e-9 * np.abs(I).max()
            A = build.mm.Angle
            m.compute_far_field(A(7.5, 15, 6), A(10, 50, 7), dist=1.0)
            et, ep = np.array(m.far_field.e_theta).T, np.array(m.far_field.e_phi).T
            zen, azi = np.array(m.far_field.zen).T, np.array(m.far_field.azi).T
            kk = 2 * math.pi * case['f'] / 299.8
            mx = max(np.abs(et).max(), np.abs(ep).max())
            envd = case['env']
            circ = envd.get('boundary') == 'circular' or bool(envd.get('radials'))
            worst = 0.0
            for ix in np.ndindex(et.shape):
                a_, b_ = rf_.far_field_real_ground(topo, I, kk, case['f'], float(zen[ix]), float(azi[ix]), envd['media'], circ, envd.get('radials'))
                worst = max(worst, abs(a_ - et[ix]) / mx, abs(b_ - ep[ix]) / mx)
            horiz = any(abs((p_.e1 - p_.e0)[0]) + abs((p_.e1 - p_.e0)[1]) > 1e-6 * np.linalg.norm(p_.e1 - p_.e0) for p_ in topo.pulses)
            if ok1 and worst <= 1e-6 and horiz:
                cls = ':ideal-ground-currents-with-real-ground-reflection'
        except Exception:
            pass
    if env == 'real':
        if -imb > margin:
            fails.append(('real-ground:more-out-than-in' + cls, detail))
    elif abs(imb) > margin:
        fails.append(('imbalance' + cls if cls else 'imbalance:' + env + (':loaded' if case['loads'] else ''), detail))
    return Result(fails=fails, nontrivial=bool(nt), labels=sorted(set(labels)), info=imb / app)
