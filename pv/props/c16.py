"""C16 Field tables contain exactly the requested sample points."""
import io
import time
import contextlib
import itertools
import collections
import multiprocessing
import numpy as np
from hypothesis import strategies as st

from .. import gen, build
from ..runner import Result, case_hash
from ..ref import report

ID = 'C16'
RULE = ('Generated: far-field grids (start, step, count 1..100; non-representable decimals, negative steps, thirds) '
        'and near-field grids (nine numbers, counts 1..100 per axis with product <= 400, steps such as 0.1, 0.05, '
        '1/3, negative, zero step with count 1) on a fixed small dipole, run through the command line.  Oracle: '
        'far_field.zen/azi and the parsed dBi table have N_theta*N_phi rows at start+i*step (phi outer, theta '
        'inner); near_field_coord, len(e_field), len(h_field) and the FIELD POINT blocks are Nx*Ny*Nz points at '
        'start+i*inc with x fastest, then y, then z.  In addition the finite grid {12 starts} x {16 steps} x '
        '{counts} is enumerated for one axis.  Non-trivial = count*step not exactly representable or negative step.')
BUDGET = {'quick': {'examples': 480, 'wall': 200}, 'thorough': {'examples': 20000, 'wall': 1500}}
ASSUMPTIONS = ['order of near-field points (x fastest) is that of the repository\'s own golden near-field files']
LABEL_FLOORS = {'near': 0.3, 'far': 0.3, 'neg-step': 0.1, 'inexact-step': 0.3}
FLOOR_EXCLUDE_LABEL = 'enumerated-axis'   # floors are fractions of the generated part

BASE = ['-f', '30', '--wire=4,0,0,-2.4,0,0,2.4,0.002', '--excitation-pulse=2']
# the same dipole standing over a ground plane (field points may lie anywhere, also on and below the plane)
BASE_GND = {'ideal': ['-f', '30', '--wire=4,0,0,0.2,0,0,5.0,0.002', '--excitation-pulse=2', '--medium=0,0,0'],
            'real': ['-f', '30', '--wire=4,0,0,0.2,0,0,5.0,0.002', '--excitation-pulse=2', '--medium=13,0.005,0']}
STEPS = [0.1, 0.05, 0.2, 0.3, 1 / 3., 0.7, 1.0, 2.5, 1e-3, 0.15, -0.1, -0.05, -1 / 3., -1.0, 0.6, 1.1]
STARTS = [0.0, 1.0, -1.0, 0.1, 0.3, -0.7, 10.0, 5.5, 100.0, -2.05, 1 / 3., 3.3]


def fnum(x):
    return repr(float(x))


@st.composite
def axis(draw, maxn=100, allow_zero=True):
    n = draw(st.one_of(st.integers(1, 12), st.integers(1, maxn)))
    step = draw(st.one_of(st.sampled_from(STEPS), st.floats(-5, 5).map(lambda v: float('%.3g' % v))))
    if step == 0 and (n != 1 or not allow_zero):
        step = 0.1
    start = draw(st.one_of(st.sampled_from(STARTS), st.floats(-50, 50).map(lambda v: float('%.4g' % v))))
    return [start, step, n]


@st.composite
def case_strategy(draw):
    kind = draw(st.sampled_from(['far', 'near']))
    if kind == 'far':
        th = draw(axis(60, allow_zero=True))
        ph = draw(axis(60, allow_zero=True))
        while th[2] * ph[2] > 1500:
            if th[2] > ph[2]:
                th[2] //= 2
            else:
                ph[2] //= 2
        return {'kind': 'far', 'theta': th, 'phi': ph}
    ax = [draw(axis(100)) for _ in range(3)]
    while ax[0][2] * ax[1][2] * ax[2][2] > 400:
        i = int(np.argmax([a[2] for a in ax]))
        ax[i][2] = max(1, ax[i][2] // 2)
    # keep the points away from the wire (on the z axis, |z| <= 2.4): shift x so that |x| >= 0.5 where needed
    return {'kind': 'near', 'axes': ax, 'ground': draw(st.sampled_from([None, None, None, 'ideal', 'ideal', 'real']))}


def strategy(tier):
    return case_strategy()


def expected_axis(a):
    return [a[0] + i * a[1] for i in range(a[2])]


def run(argv):
    out, err = io.StringIO(), io.StringIO()
    with contextlib.redirect_stdout(out):
        r = build.mm.main(list(argv), f_err=err)
    return r, out.getvalue(), err.getvalue()


def close(a, b):
    return abs(a - b) <= 1e-9 * max(1.0, abs(b))


def check(case):
    labels = [case['kind']]
    nt = False
    fails = []
    axes = [case['theta'], case['phi']] if case['kind'] == 'far' else case['axes']
    for a in axes:
        if a[1] < 0:
            labels.append('neg-step')
            nt = True
        if a[2] > 1 and (a[0] + a[2] * a[1]) - a[0] != a[2] * a[1] or float(a[1]).hex().rstrip('0')[-6:] != float(a[1]).hex()[-6:]:
            pass
        # step not exactly representable as a short binary fraction
        if a[2] > 1 and (a[1] * 1024) != int(a[1] * 1024):
            labels.append('inexact-step')
            nt = True
        if a[1] == 0:
            labels.append('zero-step')
    if case['kind'] == 'far':
        th, ph = case['theta'], case['phi']
        argv = BASE + ['--theta=%s,%s,%d' % (fnum(th[0]), fnum(th[1]), th[2]), '--phi=%s,%s,%d' % (fnum(ph[0]), fnum(ph[1]), ph[2])]
        m = build.mm.main(argv, return_mininec=True)
        m.compute()
        # (through the API whole numbers are naturally given as Python ints)
        as_api = lambda a: [int(a[0]) if float(a[0]).is_integer() else a[0], int(a[1]) if float(a[1]).is_integer() else a[1], a[2]]
        m.compute_far_field(build.mm.Angle(*as_api(th)), build.mm.Angle(*as_api(ph)))
        et, ep = expected_axis(th), expected_axis(ph)
        want = [(t, p) for p in ep for t in et]
        zen = list(np.asarray(m.far_field.zen).flat)
        azi = list(np.asarray(m.far_field.azi).flat)
        if len(zen) != len(want) or np.asarray(m.far_field.gain).reshape(-1, 3).shape[0] != len(want):
            fails.append(('far:count', '%d directions for %d x %d requested' % (len(zen), th[2], ph[2])))
        elif not all(close(z, w[0]) and close(a, w[1]) for z, a, w in zip(zen, azi, want)):
            fails.append(('far:angles', 'direction list differs from start+i*step (phi outer, theta inner)'))
        # further requests on the same object that differ from the first in one count only
        for th2, ph2 in (([th[0], th[1], th[2]], [ph[0], ph[1], ph[2] + 2]), ([th[0], th[1], th[2] + 1], [ph[0], ph[1], ph[2] + 2]),
                         ([th[0], th[1], th[2] + 1], [ph[0], ph[1], 1])):
            if fails:
                break
            m.compute_far_field(build.mm.Angle(*as_api(th2)), build.mm.Angle(*as_api(ph2)))
            want2 = [(t, p) for p in expected_axis(ph2) for t in expected_axis(th2)]
            zen2 = list(np.asarray(m.far_field.zen).flat)
            azi2 = list(np.asarray(m.far_field.azi).flat)
            if len(zen2) != len(want2) or np.asarray(m.far_field.gain).reshape(-1, 3).shape[0] != len(want2) or \
                    not all(close(z, w[0]) and close(a, w[1]) for z, a, w in zip(zen2, azi2, want2)):
                fails.append(('far:angles:later-request', 'after a request for %s x %s the request %s x %s gives %d directions, expected %d '
                              '(start + i*step, phi outer)' % (th, ph, th2, ph2, len(zen2), len(want2))))
        r, out, err = run(argv)
        if r is not None:
            fails.append(('far:run', 'return value %r: %s' % (r, (out + err)[:200])))
        else:
            try:
                rep = report.parse(out)
                rows = rep['far_db']['rows']
                if len(rows) != len(want):
                    fails.append(('far:table-count', 'dBi table has %d rows for %d x %d requested' % (len(rows), th[2], ph[2])))
                else:
                    for rrow, w in zip(rows, want):
                        if not (report.printed_close(rrow[0], w[0], fixed=True) and report.printed_close(rrow[1], w[1], fixed=True)):
                            fails.append(('far:table-angles', 'row prints (%r, %r) for direction (%r, %r)' % (rrow[0], rrow[1], w[0], w[1])))
                            break
            except report.ParseError as e:
                fails.append(('far:unparsable', str(e)[:200]))
        # the table in V/m (its angles are printed with two decimals)
        r, out, err = run(argv + ['--option=far-field', '--option=far-field-absolute'])
        if r is not None:
            fails.append(('far:run', 'with the V/m table: return value %r: %s' % (r, (out + err)[:200])))
        else:
            try:
                rep = report.parse(out)
                rows = (rep.get('far_abs') or {}).get('rows')
                if rows is None or len(rows) != len(want):
                    fails.append(('far:vm-table-count', 'V/m table has %s rows for %d x %d requested'
                                  % (None if rows is None else len(rows), th[2], ph[2])))
                else:
                    for rrow, w in zip(rows, want):
                        if abs(rrow[0] - w[0]) > 0.00501 + 1e-9 * abs(w[0]) or abs(rrow[1] - w[1]) > 0.00501 + 1e-9 * abs(w[1]):
                            fails.append(('far:vm-table-angles', 'row prints (%r, %r) for direction (%r, %r)' % (rrow[0], rrow[1], w[0], w[1])))
                            break
            except report.ParseError as e:
                fails.append(('far:unparsable', str(e)[:200]))
    else:
        ax = case['axes']
        opt = ','.join([fnum(a[0]) for a in ax] + [fnum(a[1]) for a in ax] + [str(a[2]) for a in ax])
        argv = (BASE_GND[case['ground']] if case.get('ground') else BASE) + ['--near-field=' + opt]
        if case.get('ground'):
            labels.append('near-over-ground')
            if any(z < 0 for z in expected_axis(ax[2])):
                labels.append('near-points-below-the-plane')
        ex = [expected_axis(a) for a in ax]
        want = [(x, y, z) for z in ex[2] for y in ex[1] for x in ex[0]]
        try:
            m = build.mm.main(argv, return_mininec=True)
            m.compute()
            m.compute_near_field([a[0] for a in ax], [a[1] for a in ax], [a[2] for a in ax])
        except Exception as e:
            kind = 'zero-step' if any(a[1] == 0 for a in ax) else 'other'
            fails.append(('near:exception:%s:%s' % (type(e).__name__, kind), 'compute_near_field%r raised %r' % (tuple(ax), e)))
            return Result(fails=fails, nontrivial=nt, labels=sorted(set(labels)))
        co = np.asarray(m.near_field_coord)
        n = len(want)
        if co.shape != (3, n) or len(m.e_field) != n or len(m.h_field) != n:
            # which axes are off?
            got_n = co.shape[1] if co.ndim == 2 else -1
            fails.append(('near:count', '%s points (E %d, H %d) for %d x %d x %d = %d requested; axes %s'
                          % (got_n, len(m.e_field), len(m.h_field), ax[0][2], ax[1][2], ax[2][2], n, ax)))
        else:
            pts = co.T
            if not all(close(p[0], w[0]) and close(p[1], w[1]) and close(p[2], w[2]) for p, w in zip(pts, want)):
                fails.append(('near:points', 'points differ from start+i*inc with x fastest, then y, then z; first %s expected %s' % (pts[:3].tolist(), want[:3])))
        if not fails and n <= 200:
            # a second request on the same object whose start and increments differ only in the sixth..seventh digit
            # (a fine scan): the points are those of the second request
            ax2 = [[a[0] * (1 + 3e-6) + 2e-9, a[1] * (1 - 2e-6), a[2]] for a in ax]
            try:
                m.compute_near_field([a[0] for a in ax2], [a[1] for a in ax2], [a[2] for a in ax2])
                ex2 = [expected_axis(a) for a in ax2]
                want2 = [(x, y, z) for z in ex2[2] for y in ex2[1] for x in ex2[0]]
                co2 = np.asarray(m.near_field_coord)
                if co2.shape != (3, n) or not all(abs(p[i] - w[i]) <= 1e-12 * max(1.0, abs(w[i])) for p, w in zip(co2.T, want2) for i in range(3)):
                    fails.append(('near:points:second-request', 'after a request for %s the request %s gives points %s, expected %s'
                                  % (ax, ax2, co2.T[:2].tolist(), want2[:2])))
            except Exception as e:
                fails.append(('near:exception:%s:second-request' % type(e).__name__, repr(e)[:200]))
        if not fails and n <= 60:
            r, out, err = run(argv)
            if r is not None:
                fails.append(('near:run', 'return value %r: %s' % (r, (out + err)[:200])))
            else:
                try:
                    rep = report.parse(out)
                    for key in ('near_e', 'near_h'):
                        blocks = rep.get(key) or []
                        if len(blocks) != n:
                            fails.append(('near:report-count', '%d %s blocks for %d points' % (len(blocks), key, n)))
                            break
                        for b, w in zip(blocks, want):
                            if not all(report.printed_close(b['point'][i], w[i], fixed=True) for i in range(3)):
                                fails.append(('near:report-points', 'block prints %r for point %r' % (b['point'], w)))
                                break
                except report.ParseError as e:
                    fails.append(('near:unparsable', str(e)[:200]))
    return Result(fails=fails, nontrivial=nt, labels=sorted(set(labels)))


def _enum_chunk(arg):
    items, stop = arg
    out = []
    for start, step, n in items:
        if time.time() > stop:
            break
        case = {'kind': 'near', 'axes': [[start, step, n], [0.7, 0.0, 1], [0.2, 0.0, 1]]}
        res = check(case)
        out.append((case, res.fails, res.nontrivial, res.labels))
    return out


def enumerate_part(tier, seed, nproc, deadline):
    """finite grid of one-axis near-field requests (and the same triple as theta grid)"""
    counts = [1, 2, 3, 4, 5, 6, 7, 8, 9, 10, 11, 13, 17, 20, 25, 33, 50, 64, 100] if tier == 'quick' else list(range(1, 101))
    items = [(s, d, n) for s in STARTS for d in STEPS for n in counts]
    chunks = [items[i::nproc * 4] for i in range(nproc * 4)]
    st_ = {'evaluations': 0, 'nt': [], 'labels': {}, 'skipped': {}, 'samples': [], 'truncated': False,
           'error': None, 'fails': {}}
    ctx = multiprocessing.get_context('spawn')
    lab = collections.Counter()
    with ctx.Pool(nproc) as pool:
        # at most half of the remaining wall clock; what is left is for the generated search
        stop = time.time() + max(5.0, 0.5 * (deadline - time.time()))
        for res in pool.imap_unordered(_enum_chunk, [(c, stop) for c in chunks]):
            for case, fails, nt, labs in res:
                st_['evaluations'] += 1
                if nt:
                    st_['nt'].append(case_hash(case))
                lab['enumerated-axis'] += 1
                lab.update('enum:' + l for l in labs)
                for sig, detail in fails:
                    cur = st_['fails'].get(sig)
                    size = case['axes'][0][2]
                    if cur is None or size < cur['size']:
                        st_['fails'][sig] = {'size': size, 'case': case, 'detail': detail, 'count': (cur['count'] if cur else 0) + 1}
                    else:
                        cur['count'] += 1
    st_['labels'] = dict(lab)
    done = st_['evaluations'] == len(items)
    st_['truncated'] = not done
    return st_, {'enumerated_one_axis_grids': st_['evaluations'], 'enumerated_part_exhaustive_for_counts_1_to_100': tier == 'thorough' and done,
                 'enumeration': '%d starts x %d steps x %d counts on the x axis' % (len(STARTS), len(STEPS), len(counts))}
