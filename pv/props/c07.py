"""C07 Currents are linear in the source voltages; source data are V/I and Re(VI*)/2."""
import cmath
import math
import copy
import numpy as np
from hypothesis import strategies as st

from .. import gen, rules, build, common
from ..runner import Result
from ..ref import report

ID = 'C07'
RULE = ('Generated: rule-conforming antennas in free space, over ideal and real ground, 0..2 lumped loads, 1..4 sources on distinct '
        'interior / junction / grounded pulses with complex voltages (polar, 1e-3..1e3 V), a complex factor c.  '
        'Oracle: I(cV) = c I(V) with unchanged impedances and dBi pattern (also when a power level 1e-3..1e5 W is '
        'requested for the field table); I(V1..Vn) = sum of I(Vi alone, others '
        '0 V; on fresh objects and port by port on one object); Excitation.impedance/power and the parsed SOURCE DATA block equal V/I and Re(V I*)/2 for the '
        'current of the feed pulse named by the reference topology.  Non-trivial = >= 2 sources with different '
        'phases, or a source on a junction or grounded pulse.')
BUDGET = {'quick': {'examples': 1200, 'wall': 200}, 'thorough': {'examples': 40000, 'wall': 1500}}
ASSUMPTIONS = ['tolerance 1e-9 * cond(Z) relative to the largest current (direct solve)',
               'voltage line of SOURCE DATA is a fixed-point field (1e-6 absolute)']
LABEL_FLOORS = {'multi-source': 0.4, 'src-junc': 0.1, 'src-gnd': 0.05, 'env-real': 0.1, 'loaded': 0.3}


@st.composite
def case_strategy(draw, big=False):
    case = draw(gen.antenna(env_kinds=('free', 'ideal', 'ideal', 'real'), max_wires=4, max_seg=8 if not big else 14,
                            nsrc=(1, 4), taper_prob=0.1))
    # 0..2 lumped loads: linearity in the source voltages holds for the loaded antenna as well
    npl = len(gen.stand_in_topology(case)[0].pulses)
    lds = []
    for i in range(draw(st.sampled_from([0, 0, 1, 2]))):
        l = draw(gen.lumped_load(kinds=('z', 'rlc')))
        l['attach'] = [draw(st.integers(0, npl - 1))]
        lds.append(l)
    case['loads'] = lds
    ph = draw(st.floats(0, 2 * math.pi))
    # (a fifth of the factors is extreme: the solution is linear at every magnitude)
    mag = draw(gen.logf(1e-3, 1e3)) if draw(st.integers(0, 4)) else draw(gen.logf(1e-18, 1e12))
    case['factor'] = [gen.r6(mag * math.cos(ph)), gen.r6(mag * math.sin(ph))]
    case['pwr'] = gen.r6(draw(gen.logf(1e-3, 1e5)))
    return case


def strategy(tier):
    return case_strategy(big=tier == 'thorough')


def pattern(m, pwr=None):
    m.compute_far_field(build.mm.Angle(5, 20, 5), build.mm.Angle(0, 40, 9), pwr=pwr, dist=1000.0 if pwr else 0)
    return np.array(m.far_field.gain)


def check(case):
    why = rules.check(case)
    if why:
        return Result(skipped=why)
    try:
        m = common.solved(case)
    except build.Rejected as e:
        return Result(skipped='rejected: ' + str(e)[:40])
    srcs = case['sources']
    labels = common.base_labels(case)
    if case.get('loads'):
        labels.append('loaded')
    phases = [cmath.phase(complex(*s['v'])) for s in srcs]
    nt = (len(srcs) >= 2 and max(phases) - min(phases) > 1e-3) or any(s.get('_kind') in ('junc', 'gnd') for s in srcs)
    c = common.cond(m)
    if not np.isfinite(c) or c > 1e7:
        return Result(skipped='condition number above 1e7')
    tol = 1e-9 * max(c, 10)
    I = np.array(m.current)
    imax = np.abs(I).max()
    fails = []
    V = [complex(*s['v']) for s in srcs]
    fac = complex(*case['factor'])
    # --- source data against own computation
    for k, (s, ms) in enumerate(zip(srcs, m.sources)):
        if ms.idx != s['_idx']:
            fails.append(('source-on-wrong-pulse', 'source %d is registered on pulse %d, named pulse is %d' % (k, ms.idx + 1, s['_idx'] + 1)))
            continue
        i = I[s['_idx']]
        if abs(ms.voltage - V[k]) > 1e-12 * abs(V[k]):
            fails.append(('source-voltage', '%r vs %r' % (ms.voltage, V[k])))
        z = V[k] / i
        p = 0.5 * (V[k] * np.conj(i)).real
        if abs(ms.impedance - z) > 1e-12 * abs(z):
            fails.append(('source-impedance', 'reports %r, V/I = %r' % (ms.impedance, z)))
        if abs(ms.power - p) > 1e-12 * abs(V[k] * i):
            fails.append(('source-power', 'reports %r, Re(V I*)/2 = %r' % (ms.power, p)))
    if abs(m.power - sum(0.5 * (v * np.conj(I[s['_idx']])).real for v, s in zip(V, srcs))) > 1e-12 * sum(abs(v * I[s['_idx']]) for v, s in zip(V, srcs)):
        fails.append(('total-power', 'total power %r is not the sum of the source powers' % m.power))
    # --- report block
    try:
        rep = report.parse(m.as_mininec(options=set()))
        sd = rep['source_data']
        if len(sd) != len(srcs):
            fails.append(('report:source-blocks', '%d blocks for %d sources' % (len(sd), len(srcs))))
        else:
            for k, (s, b) in enumerate(zip(srcs, sd)):
                i = I[s['_idx']]
                z = V[k] / i
                p = 0.5 * (V[k] * np.conj(i)).real

                if b['pulse'] != s['_idx'] + 1:
                    fails.append(('report:source-pulse', 'block %d names pulse %d, fed pulse is %d' % (k, b['pulse'], s['_idx'] + 1)))
                if not report.cprinted_close(b['v'], V[k], fixed=True):
                    fails.append(('report:voltage', 'prints %r for %r' % (b['v'], V[k])))
                if not report.cprinted_close(b['i'], i):
                    fails.append(('report:current', 'prints %r for %r' % (b['i'], i)))
                if not report.cprinted_close(b['z'], z):
                    fails.append(('report:impedance', 'prints %r for %r' % (b['z'], z)))
                if not report.printed_close(b['p'], p):
                    fails.append(('report:power', 'prints %r for %r' % (b['p'], p)))
    except report.ParseError as e:
        fails.append(('report:unparsable', str(e)))
    # --- homogeneity
    c2 = copy.deepcopy(case)
    for s, v in zip(c2['sources'], V):
        w = v * fac
        s['v'] = [w.real, w.imag]
    m2 = common.solved(c2)
    I2 = np.array(m2.current)
    err = np.abs(I2 - fac * I).max() / (abs(fac) * imax)
    if err > tol:
        fails.append(('homogeneity:currents', 'I(cV) differs from c I(V) by %.3g of the largest current (tol %.1g, cond %.3g)' % (err, tol, c)))
    for a, b in zip(m.sources, m2.sources):
        if abs(a.impedance - b.impedance) > tol * abs(a.impedance):
            fails.append(('homogeneity:impedance', '%r vs %r' % (a.impedance, b.impedance)))
            break
    if common.net_power_ok(m) and common.net_power_ok(m2):
        g1, g2 = pattern(m), pattern(m2)
        msk = g1 > g1.max() - 60
        d = np.abs(g1 - g2)[msk].max()
        if d > 1e-6 + 10 * tol:
            fails.append(('homogeneity:pattern', 'dBi pattern changes by %.3g dB when all voltages are multiplied by c' % d))
        # the dBi pattern is a property of the current distribution: a power level requested for the V/m table
        # (which rescales the fields like a common voltage factor) leaves it unchanged, too
        pw = case.get('pwr', 100.0)
        for mm_, nm in ((m, 'V'), (m2, 'cV')):
            d = np.abs(g1 - pattern(mm_, pw))[msk].max()
            if d > 1e-6 + 10 * tol:
                fails.append(('homogeneity:pattern:requested-power', 'dBi pattern of I(%s) changes by %.3g dB when %g W are '
                              'requested for the field table' % (nm, d, pw)))
                break
    else:
        labels.append('net-power<=0')
    # --- superposition
    if len(srcs) >= 2:
        # (i) each source really alone (a 0 V source is a short circuit, i.e. no source at all)
        tot = np.zeros_like(I)
        for k in range(len(srcs)):
            ck = copy.deepcopy(case)
            ck['sources'] = [ck['sources'][k]]
            mk = build.model(ck)
            mk.compute_impedance_matrix()
            mk.compute_impedance_matrix_loads()
            mk.compute_rhs()
            mk.compute_currents()
            tot = tot + np.array(mk.current)
        err = np.abs(tot - I).max() / imax
        if err > tol * len(srcs):
            fails.append(('superposition:alone', 'sum of the responses to each source alone differs by %.3g of the largest '
                          'current (tol %.1g); source kinds %s' % (err, tol, [s.get('_kind') for s in srcs])))
        # (ii) the order in which the sources are given does not matter
        cr = copy.deepcopy(case)
        cr['sources'] = list(reversed(cr['sources']))
        mr = common.solved(cr)
        err = np.abs(np.array(mr.current) - I).max() / imax
        if err > tol:
            fails.append(('source-order', 'currents change by %.3g of the largest current when the sources are listed in '
                          'reverse order; source kinds %s' % (err, [s.get('_kind') for s in srcs])))
        # (iii) the others held at 0 V
        tot = np.zeros_like(I)
        for k in range(len(srcs)):
            ck = copy.deepcopy(case)
            for j, s in enumerate(ck['sources']):
                if j != k:
                    s['v'] = [0.0, 0.0]
            mk = build.model(ck)
            mk.compute_impedance_matrix()
            mk.compute_impedance_matrix_loads()
            mk.compute_rhs()
            mk.compute_currents()
            tot = tot + np.array(mk.current)
        err = np.abs(tot - I).max() / imax
        if err > tol * len(srcs):
            fails.append(('superposition', 'sum of single-source responses differs by %.3g of the largest current (tol %.1g)' % (err, tol)))
        # (iv) port by port on ONE object: the sources are replaced between the solves (m.sources = [] and
        # register_source, the way the package's own doctest of compute_impedance_matrix does it)
        mo = build.model(case)
        tot = np.zeros_like(I)
        for k in range(len(srcs)):
            mo.sources = []
            mo.register_source(build.mm.Excitation(V[k]), srcs[k]['_idx'])
            mo.compute()
            tot = tot + np.array(mo.current)
        err = np.abs(tot - I).max() / imax
        if err > tol * len(srcs):
            fails.append(('superposition:one-object-port-by-port', 'sum of the responses to each source alone, solved one '
                          'after the other on one object, differs by %.3g of the largest current (tol %.1g)' % (err, tol)))
    # (v) homogeneity on ONE object: solve and look at the pattern for V, replace the sources by c V, solve again:
    # currents c I, the same pattern, total power |c|^2 P
    if common.net_power_ok(m):
        try:
            mo = build.model(case)
            mo.compute()
            ga = pattern(mo)
            pa = mo.power
            mo.sources = []
            for k in range(len(srcs)):
                # (the constructor's other form: magnitude and phase in degrees; a negative magnitude is the phasor
                # turned by 180 degrees)
                vk = V[k] * fac
                if (k + len(srcs)) % 2:
                    ex = build.mm.Excitation(-abs(vk), math.degrees(math.atan2(vk.imag, vk.real)) + 180.0)
                elif k % 3 == 1:
                    ex = build.mm.Excitation(abs(vk), math.degrees(math.atan2(vk.imag, vk.real)))
                else:
                    ex = build.mm.Excitation(vk)
                mo.register_source(ex, srcs[k]['_idx'])
            mo.compute()
            gb = pattern(mo)
            errc = np.abs(np.array(mo.current) - fac * I).max() / (abs(fac) * imax)
            msk_ = ga > ga.max() - 60
            dg = np.abs(ga - gb)[msk_].max()
            if errc > tol:
                fails.append(('homogeneity:one-object:currents', 'after replacing V by c V on the same object the currents differ from c I by %.3g' % errc))
            if dg > 1e-6 + 10 * tol + common.gain_tol_db((m,), tol, base_db=0.0):
                fails.append(('homogeneity:one-object:pattern', 'after replacing V by c V on the same object the dBi pattern changes by %.3g dB' % dg))
            if abs(mo.power - abs(fac) ** 2 * pa) > (1e-9 + tol) * abs(fac) ** 2 * sum(abs(v * I[s['_idx']]) for v, s in zip(V, srcs)):
                fails.append(('homogeneity:one-object:power', 'total power %r after the voltages were multiplied by c, |c|^2 P = %r' % (mo.power, abs(fac) ** 2 * pa)))
        except build.Rejected:
            pass
    return Result(fails=fails, nontrivial=nt, labels=labels)
