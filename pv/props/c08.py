"""C08 Loads act as the series circuit elements they describe."""
import copy
import math
import numpy as np
from hypothesis import strategies as st

from .. import gen, rules, build, common
from ..runner import Result
from ..ref import loads as rl

ID = 'C08'
RULE = ('Generated: rule-conforming antennas (free space / ideal ground, 0.1..1000 MHz) with one source and one of '
        'four scenarios: (feed) 1..3 lumped loads of any kind (complex, series RLC, trap, Laplace; values over 12 '
        'decades) on the feed pulse in either addressing form; (noop) zero load / insulation with eps_r = 1 / '
        'skin effect with conductivity 1e30, and conductivity vs resistivity; (dist) skin effect and/or insulation '
        'on all or some objects compared with an unloaded model carrying the reference per-pulse impedances as '
        'lumped loads (equivalent radius for insulated wires); (val) load.impedance(f, pulse) against the '
        'reference circuit formula.  Non-trivial = load on a junction or grounded pulse, >= 2 load kinds, or a '
        'frequency dependent kind.')
BUDGET = {'quick': {'examples': 1200, 'wall': 200}, 'thorough': {'examples': 40000, 'wall': 1500}}
ASSUMPTIONS = ['feed impedance differences are compared with tolerance 1e-8 * cond(Z) relative',
               'skin effect: exact Bessel reference (mpmath); for |k a| >= 110 the documented asymptote is allowed 5e-3']
LABEL_FLOORS = {'several-statements-incl-whole-object': 0.04, 'pulse-named-twice-by-one-load': 0.01, 'scn-feed': 0.2, 'scn-dist': 0.2, 'scn-noop': 0.1, 'load-on-junc': 0.05, 'load-on-gnd': 0.03,
                'rlc-all-three': 0.02, 'skin+ins-same-wire': 0.03, 'dist-by-tag': 0.05}


@st.composite
def case_strategy(draw, big=False):
    case = draw(gen.antenna(env_kinds=('free', 'ideal', 'ideal'), max_wires=4, max_seg=7 if not big else 12,
                            nsrc=(1, 1), tapers=False, allow_two=False))
    scn = draw(st.sampled_from(['feed', 'feed', 'noop', 'dist', 'dist', 'dist', 'multi']))
    case['scn'] = scn
    topo, objs = gen.stand_in_topology(case)
    src = case['sources'][0]
    tagsl = [o['tag'] for o in objs]
    if scn == 'feed':
        n = draw(st.integers(1, 3))
        lds = []
        for i in range(n):
            l = draw(gen.lumped_load())
            at = src['pulse'] if draw(st.booleans()) else None
            if at is None:
                p = topo.pulses[src['_idx']]
                at = src['_idx'] if draw(st.booleans()) else {'k': topo.per_obj[p.owner].index(p), 'tag': objs[p.owner]['tag']}
            l['attach'] = [at]
            lds.append(l)
        case['loads'] = lds
    elif scn == 'multi':
        # one or two lumped loads, each attached through 2..3 statements of mixed form (absolute pulse, k-th pulse of an
        # object, all pulses of an object) naming disjoint sets of pulses
        objs_with = [i for i in range(len(objs)) if topo.per_obj[i]]
        lds = []
        free_objs = list(objs_with)
        taken = set()
        # "If a pulse is loaded twice, loads appear to be in series" (README): in a third of the cases the statements
        # of one load may name a pulse more than once
        overlap = draw(st.integers(0, 2)) == 0
        case['overlap'] = overlap
        for i in range(draw(st.integers(1, 2))):
            l = draw(gen.lumped_load(kinds=('z', 'z', 'rlc', 'trap')))
            at = []
            if (overlap or not taken) and draw(st.integers(0, 4)) == 0:
                # the whole antenna in one statement
                at = ['all']
                taken.update(p.idx for p in topo.pulses)
                free_objs = []
            for j in range(0 if at else draw(st.integers(2, 3))):
                form = draw(st.sampled_from(['all-obj', 'all-obj', 'abs', 'obj']))
                cand_o = [o_ for o_ in free_objs if not any(p.idx in taken for p in topo.per_obj[o_])]
                if overlap:
                    cand_o = list(objs_with)
                if form == 'all-obj' and cand_o:
                    o_ = draw(st.sampled_from(cand_o))
                    if o_ in free_objs:
                        free_objs.remove(o_)
                    taken.update(p.idx for p in topo.per_obj[o_])
                    at.append({'all': True, 'tag': objs[o_]['tag']})
                else:
                    cand_p = [p for p in topo.pulses if overlap or p.idx not in taken]
                    if not cand_p:
                        continue
                    p = draw(st.sampled_from(cand_p))
                    taken.add(p.idx)
                    if p.owner in free_objs:
                        free_objs.remove(p.owner)
                    at.append(p.idx if form != 'obj' else {'k': topo.per_obj[p.owner].index(p), 'tag': objs[p.owner]['tag']})
            if at:
                l['attach'] = at
                lds.append(l)
        if not lds:
            l = draw(gen.lumped_load(kinds=('z',)))
            l['attach'] = [src['_idx']]
            lds = [l]
        case['loads'] = lds
    elif scn == 'noop':
        k = draw(st.sampled_from(['zero', 'eps1', 'sigma-inf', 'sigma-rho']))
        case['noop'] = k
        if k == 'zero':
            at = draw(st.sampled_from(['all', 'some']))
            if at == 'all':
                case['loads'] = [{'kind': 'z', 'z': [0.0, 0.0], 'attach': ['all']}]
            else:
                idx = draw(st.lists(st.integers(0, len(topo.pulses) - 1), min_size=1, max_size=3, unique=True))
                case['loads'] = [{'kind': 'z', 'z': [0.0, 0.0], 'attach': idx}]
        elif k == 'eps1':
            rmax = max(o['obj']['r'] for o in objs)
            case['loads'] = [{'kind': 'ins', 'radius': gen.r6(rmax * draw(st.floats(1.5, 5))), 'eps': 1.0, 'tag': None}]
        elif k == 'sigma-inf':
            case['loads'] = [{'kind': 'skin_c', 'v': 1e30, 'tag': None}]
        else:
            sg = gen.r6(draw(gen.logf(1e3, 1e8)))
            tg = draw(st.sampled_from([None] + tagsl))
            case['loads'] = [{'kind': 'skin_c', 'v': sg, 'tag': tg}]
            case['alt_loads'] = [{'kind': 'skin_r', 'v': 1.0 / sg, 'tag': tg}]
    else:
        lds = []
        which = draw(st.sampled_from(['skin', 'ins', 'both', 'both']))
        if which in ('skin', 'both'):
            sg = gen.r6(draw(gen.logf(1e3, 1e8)))
            if draw(st.booleans()):
                lds.append({'kind': draw(st.sampled_from(['skin_c', 'skin_r'])), 'v': sg, 'tag': None})
                if lds[-1]['kind'] == 'skin_r':
                    lds[-1]['v'] = gen.r6(1.0 / sg)
            else:
                for t in draw(st.lists(st.sampled_from(tagsl), min_size=1, max_size=len(tagsl), unique=True)):
                    lds.append({'kind': 'skin_c', 'v': gen.r6(draw(gen.logf(1e3, 1e8))), 'tag': t})
        if which in ('ins', 'both'):
            if draw(st.booleans()):
                rmax = max(o['obj']['r'] for o in objs)
                lds.append({'kind': 'ins', 'radius': gen.r6(rmax * draw(st.floats(1.2, 4))),
                            'eps': gen.r6(draw(st.floats(1.0, 10.0))), 'tag': None})
            else:
                for t in draw(st.lists(st.sampled_from(tagsl), min_size=1, max_size=len(tagsl), unique=True)):
                    rr = [o['obj']['r'] for o in objs if o['tag'] == t][0]
                    lds.append({'kind': 'ins', 'radius': gen.r6(rr * draw(st.floats(1.2, 4))),
                                'eps': gen.r6(draw(st.floats(1.0, 10.0))), 'tag': t})
        # option order is free
        case['loads'] = draw(st.permutations(lds))
    return case


def strategy(tier):
    return case_strategy(big=tier == 'thorough')


def zfeed(m):
    return m.sources[0].impedance


def per_object_dist(case, robjs):
    """for every object (tag order): (sigma or None, (b, eps) or None)"""
    out = []
    for o in robjs:
        sg, ins = None, None
        for l in case.get('loads') or []:
            if l['kind'] in ('skin_c', 'skin_r') and (l.get('tag') is None or l['tag'] == o['tag']):
                sg = l['v'] if l['kind'] == 'skin_c' else 1.0 / l['v']
            if l['kind'] == 'ins' and (l.get('tag') is None or l['tag'] == o['tag']):
                ins = (l['radius'], l['eps'])
        out.append((sg, ins))
    return out


def check(case):
    why = rules.check(case)
    if why:
        return Result(skipped=why)
    labels = common.base_labels(case) + ['scn-' + case['scn']]
    fails = []
    f = case['f']
    try:
        base = copy.deepcopy(case)
        base['loads'] = []
        m0 = common.solved(base)
        m = common.solved(case)
    except build.Rejected as e:
        return Result(skipped='rejected: ' + str(e)[:50])
    c = max(common.cond(m0), common.cond(m))
    if not np.isfinite(c) or c > 1e7:
        return Result(skipped='condition number above 1e7')
    tol = 1e-8 * max(c, 10)
    topo = build.ref_topology(case, m)
    src = case['sources'][0]
    skind = topo.pulses[src['_idx']].kind
    nt = False
    z0, z1 = zfeed(m0), zfeed(m)
    scn = case['scn']
    if scn == 'feed':
        lds = case['loads']
        zl = [rl.lumped(l, f) for l in lds]
        kinds = set(l['kind'] for l in lds)
        nt = skind in ('junc', 'gnd') or len(kinds) >= 2 or bool(kinds - {'z'})
        labels.append('load-on-' + skind)
        for l in lds:
            labels.append('kind-' + l['kind'])
            if l['kind'] == 'rlc' and l['R'] and l['L'] and l['C']:
                labels.append('rlc-all-three')
            if l['kind'] == 'z' and l['z'][1] < 0:
                labels.append('capacitive-z')
        # (b) impedance values
        order = {'z': 0, 'rlc': 1, 'trap': 2, 'laplace': 3}
        srt = sorted(range(len(lds)), key=lambda i: (order[lds[i]['kind']], i))
        if len(m.loads) != len(lds):
            fails.append(('load-count', '%d loads in the model for %d given' % (len(m.loads), len(lds))))
        else:
            for pos, i in enumerate(srt):
                ld = m.loads[pos]
                got = ld.impedance(f, ld.pulses[0] if ld.pulses else None)
                if abs(got - zl[i]) > 1e-9 * abs(zl[i]) + 1e-300:
                    fails.append(('value:' + lds[i]['kind'], '%s at %g MHz: program %r, circuit %r' % (lds[i], f, got, zl[i])))
                if [p.idx for p in ld.pulses] != [src['_idx']]:
                    fails.append(('attach:feed', 'load attached to pulses %s, named pulse %d' % ([p.idx + 1 for p in ld.pulses], src['_idx'] + 1)))
        tot = sum(zl)
        scale = max(abs(z0), abs(z1), abs(tot))
        if abs((z1 - z0) - tot) > tol * scale:
            fails.append(('feed-sum:' + skind, 'feed impedance rises by %r, loads sum to %r (unloaded %r, cond %.3g)' % (z1 - z0, tot, z0, c)))
    elif scn == 'multi':
        nt = True
        robjs = topo.objs
        lds = case['loads']
        alt = copy.deepcopy(case)
        want = []
        for l, la in zip(lds, alt['loads']):
            idx = []
            for a in l['attach']:
                if a == 'all':
                    idx += [p.idx for p in topo.pulses]
                    labels.append('attach-whole-antenna')
                elif isinstance(a, dict) and a.get('all'):
                    w = [i for i, o in enumerate(robjs) if o['tag'] == a['tag']][0]
                    idx += [p.idx for p in topo.per_obj[w]]
                    labels.append('attach-all-object')
                elif isinstance(a, dict):
                    w = [i for i, o in enumerate(robjs) if o['tag'] == a['tag']][0]
                    idx.append(topo.per_obj[w][a['k']].idx)
                else:
                    idx.append(a)
            la['attach'] = sorted(set(idx))
            la['_mult'] = idx
            want.append(idx)
            if len(l['attach']) >= 2 and any(isinstance(a, dict) and a.get('all') for a in l['attach']):
                labels.append('several-statements-incl-whole-object')
        alt.pop('attach_perm', None)
        # a pulse named k times by one load carries that load k times (in series): in the comparison model the
        # repetitions are separate, identical loads
        extra = []
        for la in alt['loads']:
            idx = la.pop('_mult')
            k_ = 1
            while True:
                more = sorted(set(i for i in idx if idx.count(i) > k_))
                if not more:
                    break
                extra.append(dict({k2: v2 for k2, v2 in la.items()}, attach=more))
                k_ += 1
        if extra:
            labels.append('pulse-named-twice-by-one-load')
            # same kinds stay together (the option file groups loads by kind)
            alt['loads'] = alt['loads'] + extra
        # every loaded pulse carries its load exactly once: the matrix diagonal rises by the weight of the pulse
        # times the load value, and the model equals the one with pulse-by-pulse attachment
        npulses = sorted(p_.idx for ld_ in m.loads for p_ in ld_.pulses)
        if npulses != sorted(i for w_ in want for i in w_):
            fails.append(('multi:pulses', 'loads act on pulses %s (with multiplicity), the statements name %s'
                          % ([i + 1 for i in npulses], [i + 1 for i in sorted(i for w_ in want for i in w_)])))
        try:
            m2 = common.solved(alt)
            I1, I2 = np.array(m.current), np.array(m2.current)
            e_ = np.abs(I1 - I2).max() / np.abs(I2).max()
            if e_ > tol:
                fails.append(('multi:currents', 'currents differ by %.3g from the model with the same loads attached pulse by pulse' % e_))
        except build.Rejected as e:
            fails.append(('multi:pulse-by-pulse-rejected', str(e)[:200]))
    elif scn == 'noop':
        k = case['noop']
        labels.append('noop-' + k)
        nt = True
        if k == 'sigma-rho':
            alt = copy.deepcopy(case)
            alt['loads'] = case['alt_loads']
            m2 = common.solved(alt)
            if abs(zfeed(m2) - z1) > 1e-10 * max(c, 10) * abs(z1):
                fails.append(('sigma-vs-rho', 'conductivity gives %r, resistivity %r' % (z1, zfeed(m2))))
        else:
            lim = tol if k != 'sigma-inf' else max(tol, 1e-9)
            if abs(z1 - z0) > lim * abs(z0):
                fails.append(('noop:' + k, 'feed impedance changes from %r to %r' % (z0, z1)))
    else:
        robjs = build.ref_objs(case, m)
        dist = per_object_dist(case, robjs)
        if any(l.get('tag') is not None for l in case['loads']):
            labels.append('dist-by-tag')
        if any(d[0] and d[1] for d in dist):
            labels.append('skin+ins-same-wire')
        nt = True
        # equivalent model: radii replaced by equivalent radius, lumped loads per pulse
        eq = copy.deepcopy(base)
        build.assign_tags(eq)
        by_tag = {o['tag']: i for i, o in enumerate(robjs)}
        for o in eq['objs']:
            d = dist[by_tag[o['_tag']]]
            if d[1]:
                o['r'] = rl.equivalent_radius(o['r'], d[1][0], d[1][1])
        lumped = []
        zref = {}
        loose = False
        zp_cache = {}
        for p in topo.pulses:
            z = 0j
            for (ow, os_, _), leglen in zip(p.legs, (p.l0, p.l1)):
                sg, ins = dist[ow]
                a = robjs[ow]['obj']['r']
                half = leglen / 2.0
                if p.kind == 'gnd':
                    # a ground pulse represents half a real segment (its second leg is the image)
                    half = leglen / 4.0
                if sg:
                    key = (ow, 's')
                    if key not in zp_cache:
                        zp_cache[key] = rl.skin_per_length(f, a, sg)
                    zs, ka = zp_cache[key]
                    loose |= ka >= 109.0
                    z += zs * half
                if ins:
                    z += rl.insulation_per_length(f, a, ins[0], ins[1]) * half
            if z != 0:
                zref[p.idx] = z
                lumped.append({'kind': 'z', 'z': [z.real, z.imag], 'attach': [p.idx]})
            if p.kind != 'int' and z != 0:
                labels.append('load-on-' + p.kind)
        eq['loads'] = lumped
        # (d) per-pulse values and the set of loaded pulses
        got = {}
        cnt = {}
        for ld in m.loads:
            kind = type(ld).__name__
            for p in ld.pulses:
                got[p.idx] = got.get(p.idx, 0j) + ld.impedance(f, p)
                cnt[(kind, p.idx)] = cnt.get((kind, p.idx), 0) + 1
        dup = [k for k, v in cnt.items() if v > 1]
        if dup:
            fails.append(('dist:pulse-loaded-twice', 'pulses loaded more than once by one load kind: %s' % dup[:5]))
        rtol = 5e-3 if loose else 1e-8
        if loose:
            labels.append('skin-asymptote')
        bad_gnd = bad = None
        for i in sorted(set(got) | set(zref)):
            a, b = got.get(i, 0j), zref.get(i, 0j)
            if abs(a - b) > rtol * max(abs(a), abs(b)):
                if topo.pulses[i].kind == 'gnd':
                    bad_gnd = bad_gnd or (i, a, b)
                else:
                    bad = bad or (i, a, b)
        if bad:
            i, a, b = bad
            fails.append(('dist:value:' + topo.pulses[i].kind, 'pulse %d (%s): program adds %r, per-length impedance x '
                          'represented conductor length = %r' % (i + 1, topo.pulses[i].kind, a, b)))
        if bad_gnd:
            i, a, b = bad_gnd
            sig = 'dist:value:gnd'
            if abs(a - 2 * b) <= rtol * abs(a):
                sig += ':twice'
            fails.append((sig, 'grounded pulse %d: program adds %r, per-length impedance x represented conductor '
                          'length (half a segment) = %r' % (i + 1, a, b)))
        if not bad and not bad_gnd:
            try:
                me = common.solved(eq)
                ze = zfeed(me)
                lim = max(tol, 2 * rtol if loose else 0)
                if abs(ze - z1) > lim * abs(z1):
                    sig = 'dist:feed'
                    # classification only: does recomputing the exact-kernel self term of every segment
                    # with the equivalent radius (as all other terms use) explain the difference?
                    try:
                        m3 = build.model(case)
                        for g in m3.geo:
                            for sg_ in g.segments:
                                sg_.i6 = (1 + np.log(16 * g.r / sg_.seg_len)) / np.pi / g.r
                        m3.pulses.reset()
                        m3.compute()
                        if abs(zfeed(m3) - ze) <= lim * max(abs(z1), abs(ze), abs(zfeed(m3))) and any(d[1] for d in dist):
                            sig = 'dist:feed:insulated-thick-wire:self-term-uses-bare-radius'
                    except Exception:
                        pass
                    fails.append((sig, 'distributed load gives feed impedance %r, equivalent lumped model %r' % (z1, ze)))
            except build.Rejected as e:
                labels.append('equivalent-rejected')
    return Result(fails=fails, nontrivial=nt, labels=sorted(set(labels)))
