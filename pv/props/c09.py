"""C09 Kirchhoff current law and end conditions in the current report."""
import numpy as np
from hypothesis import strategies as st

from .. import gen, rules, build
from ..runner import Result
from ..ref import report, topology as rtop

ID = 'C09'
RULE = ('Generated: rule-conforming wire structures (trees, stars of 2..5 ends at one junction, closed polygon '
        'loops, two components; free space and ideal ground; random wire order, direction, tags; a quarter of the '
        'cases with one or two wires moved into place by a per-tag translation; 1..3 complex sources).  Oracle: CURRENT DATA block parsed from the report vs reference topology: E line with zeros at '
        'every free end, J value = signed sum of the solved pulse currents through that wire end, printed J values '
        'sum to zero at every junction.  Non-trivial = some junction has degree >= 3, or >= 2 later wires on the '
        'first end of an earlier wire, or the structure is a closed loop.  Distinct = SHA-1 of the case JSON.')
BUDGET = {'quick': {'examples': 1600, 'wall': 150}, 'thorough': {'examples': 40000, 'wall': 1500}}
ASSUMPTIONS = ['reference topology (pv/ref/topology.py) as validated by C12',
               'report parser (pv/ref/report.py) validated against the golden reports']
LABEL_FLOORS = {'deg>=3': 0.10, 'rep-end1-multi': 0.03, 'loop': 0.05, 'ground': 0.15, 'assembled-by-translation': 0.1}


@st.composite
def case_strategy(draw, big=False):
    if draw(st.integers(0, 6)) == 0:
        # an arc or helix with wires on its ends, or an arc closed by its chord (a loop of two objects)
        return draw(gen.curve_antenna(env_kinds=('free', 'free', 'ideal'), nsrc=(1, 3)))
    case = draw(gen.antenna(env_kinds=('free', 'free', 'ideal'), max_wires=6 if big else 5, max_seg=6 if not big else 10,
                            tapers=False, nsrc=(1, 3), star=5, allow_two=True))
    if len(case['objs']) >= 2 and draw(st.integers(0, 3)) == 0:
        # one or two wires are described somewhere else and moved into place by a translation of their tag, the
        # way structures are assembled with --geo-translate; the junctions exist only after the move
        build.assign_tags(case)
        lam = gen.C_MHZ_M / case['f']
        ground = case['env']['kind'] != 'free'
        k0 = max([x['key'] for x in case['xforms']] + [0.0]) + 1
        for n, i in enumerate(draw(st.lists(st.integers(0, len(case['objs']) - 1), min_size=1, max_size=2, unique=True))):
            o = case['objs'][i]
            if o.get('type', 'wire') != 'wire':
                continue
            v = [gen.r6(draw(st.floats(-2, 2)) * lam), gen.r6(draw(st.floats(-2, 2)) * lam),
                 0.0 if ground else gen.r6(draw(st.floats(-2, 2)) * lam)]
            o['p1'] = [float(a - b) for a, b in zip(o['p1'], v)]
            o['p2'] = [float(a - b) for a, b in zip(o['p2'], v)]
            case['xforms'].append({'kind': 'translate', 'key': float(k0 + n), 'v': v, 'tag': o['_tag']})
        case['_info'] = dict(case.get('_info') or {}, assembled=True)
    elif draw(st.integers(0, 1)) == 0:
        # junctions that hold within the matching tolerance only (some of the joined ends share the same slightly
        # different numbers)
        if draw(gen.jitter_ends(case, prob=0.1, group_prob=0.85)):
            case['_info'] = dict(case.get('_info') or {}, jittered=True)
    return case


def strategy(tier):
    return case_strategy(big=tier == 'thorough')


def classify(topo):
    labels = []
    nt = False
    for j in topo.junctions:
        if len(j) >= 3:
            labels.append('deg>=3')
            nt = True
        if len(j) >= 3 and j[0][1] == 0:
            labels.append('rep-end1-multi')
        if len(j) >= 2 and j[0][1] == j[1][1]:
            labels.append('same-end-junction')
    return sorted(set(labels)), nt


def last_pulse_only(topo, cur, w, e):
    """current of the highest-numbered pulse through end e of object w, with its sign"""
    n = len(topo.objs[w]['segs']) - 1
    seg = 0 if e == 0 else n - 1
    endpt = topo.objs[w]['segs'][0 if e == 0 else n]
    best = 0j
    for p in topo.pulses:
        if p.kind == 'gnd' or np.linalg.norm(p.pt - endpt) > 2 * topo.tol + 1e-12:
            continue
        for (ow, os_, sense) in p.legs:
            if ow == w and os_ == seg:
                best = sense * cur[p.idx]
    return best


def check(case):
    why = rules.check(case, check_seg=False)
    if why:
        return Result(skipped=why)
    try:
        m = build.model(case)
    except build.Rejected as e:
        return Result(skipped='rejected: ' + str(e)[:40])
    m.compute()
    text = m.as_mininec(options=set())
    rep = report.parse(text)
    topo = build.ref_topology(case, m)
    labels, nt = classify(topo)
    if case.get('_info', {}).get('template') == 'loop':
        labels.append('loop')
        nt = True
    if build.has_ground(case):
        labels.append('ground')
    if any(o['obj']['type'] != 'wire' for o in topo.objs):
        labels.append('curve')
    if len(topo.objs) == 2 and all(len(j) == 2 for j in topo.junctions) and len(topo.junctions) == 2:
        labels.append('two-object-loop')
        nt = True
    if any(x.get('tag') is not None for x in case.get('xforms') or []):
        labels.append('assembled-by-translation')
    if (case.get('_info') or {}).get('jittered'):
        labels.append('junctions-within-tolerance')
    fails = []
    cur = np.asarray(m.current)
    imax = float(np.abs(cur).max()) or 1.0
    if len(cur) != len(topo.pulses):
        return Result(fails=[('structure:pulse-count', 'the program has %d pulses, the end points of the antenna give %d'
                              % (len(cur), len(topo.pulses)))], nontrivial=nt, labels=labels)
    if len(rep['currents']) != len(topo.objs):
        return Result(fails=[('structure:block-count', '%d blocks for %d objects' % (len(rep['currents']), len(topo.objs)))],
                      nontrivial=nt, labels=labels)
    printed = {}
    defect = {}
    for w, blk in enumerate(rep['currents']):
        rows = blk['rows']
        n = len(topo.objs[w]['segs']) - 1
        exp = []
        for e in (0, 1):
            if (w, e) in topo.grounded:
                exp.append(None)
            elif len(topo.junctions[topo.junc_of[(w, e)]]) == 1:
                exp.append('E')
            else:
                exp.append('J')
        numbered = [p.idx + 1 for p in topo.per_obj[w] if p.kind in ('int', 'gnd') or
                    (p.kind == 'junc' and p.legs[0][0] == p.legs[1][0])]
        want = ([exp[0]] if exp[0] else []) + numbered + ([exp[1]] if exp[1] else [])
        got = [r[0] for r in rows]
        if got != want:
            fails.append(('structure:rows', 'object %d (tag %d): rows %s expected %s' % (w, blk['tag'], got, want)))
            continue
        for e in (0, 1):
            if exp[e] is None:
                continue
            row = rows[0] if e == 0 else rows[-1]
            val = complex(row[1], row[2])
            if exp[e] == 'E':
                if row[1:] != (0.0, 0.0, 0.0, 0.0):
                    fails.append(('E-line-nonzero', 'object %d end %d: %s' % (w, e + 1, row)))
                continue
            ref, cnt = rtop.end_current(topo, cur, w, e)
            printed[(w, e)] = val
            if abs(val - ref) > 5e-6 * max(abs(ref), abs(val)) + 2e-7 * imax:
                j = topo.junctions[topo.junc_of[(w, e)]]
                kind = 'rep' if j[0] == (w, e) else 'member'
                sig = 'J-value:%s-end%d:deg%s' % (kind, e + 1, '2' if len(j) == 2 else '>=3')
                if kind == 'rep' and e == 0 and len(j) >= 3:
                    # which single pulse would explain the printed value?
                    alt = last_pulse_only(topo, cur, w, e)
                    if abs(val - alt) <= 5e-6 * abs(alt) + 2e-7 * imax:
                        sig += ':last-pulse-only'
                        defect[topo.junc_of[(w, e)]] = alt - ref
                fails.append((sig,
                              'object %d (tag %d) end %d prints %r, pulse currents through this end sum to %r '
                              '(%d pulses)' % (w, blk['tag'], e + 1, val, ref, cnt)))
        # numbered rows carry the pulse currents
        for r in rows:
            if isinstance(r[0], int):
                ref = cur[r[0] - 1]
                val = complex(r[1], r[2])
                if abs(val - ref) > 5e-6 * abs(ref) + 1e-9 * imax:
                    fails.append(('pulse-row-value', 'pulse %d prints %r, current is %r' % (r[0], val, ref)))
                    break
    # Kirchhoff from the printed values only
    for j in topo.junctions:
        if len(j) < 2 or not all(k in printed for k in j):
            continue
        tot = sum(printed[(w, e)] * (1 if e == 1 else -1) for (w, e) in j)
        big = max(abs(printed[k]) for k in j)
        if abs(tot) > 2e-5 * big + 1e-7 * imax:
            sig = 'kcl:deg%s' % ('2' if len(j) == 2 else '>=3')
            jx = topo.junc_of[j[0]]
            if jx in defect and abs(tot + defect[jx]) <= 2e-5 * big + 1e-7 * imax:
                # entirely explained by the (separately reported) wrong J value of the first end
                sig = 'kcl:rep-end1-multi:last-pulse-only'
            fails.append((sig,
                          'junction %s: printed end currents sum to %r (largest term %g)' % (j, tot, big)))
    return Result(fails=fails, nontrivial=nt, labels=labels)
