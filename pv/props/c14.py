"""C14 Results depend only on the inputs: no history, no run-to-run variation."""
import os
import sys
import copy
import math
import shutil
import tempfile
import subprocess
import numpy as np
from hypothesis import strategies as st

from .. import gen, rules, build, common
from ..runner import Result

ID = 'C14'
RULE = ('Generated: (history) a model containing every load kind (lumped, series RLC, trap, Laplace, skin effect, '
        'insulation) and a drawn sequence of 2..5 phases (changes, solve, observations; 2..30 operations) on ONE long-lived model object: set frequency (factor '
        '0.5..2 of the base frequency, also back to earlier values), compute, compute twice, far field, near field, '
        'replace the sources (m.sources = [] + register_source on drawn pulses), register a further lumped load, repeat an '
        'earlier field request, '
        'report; after every compute / field / report operation currents, impedances, patterns, near fields (1e-12 '
        'relative) and the report text (byte-identical) are compared with a model built freshly from the same '
        'options at the current frequency.  (sweep) the command line with --frequency-steps: the frequency '
        'dependent blocks of step k are byte-identical to a single-frequency run.  (process) drawn command lines '
        'with --output-cmdline and --output-basic-input are run 4 times in fresh processes with PYTHONHASHSEED 0, '
        '1, 2 and random: stdout and both files byte-identical.  Non-trivial = >= 2 distinct frequencies with a '
        'frequency dependent distributed load, a field request between computes, or >= 2 whole-object attachments.')
BUDGET = {'quick': {'examples': 500, 'wall': 220}, 'thorough': {'examples': 12000, 'wall': 1500}}
ASSUMPTIONS = ['the load listing is not compared between sweep and single run: in sweep mode it is printed once by design',
               'process determinism can only be detected probabilistically (miss probability (1/k!)^3 for k whole-object attachments)']
LABEL_FLOORS = {'mode-history': 0.5, 'mode-sweep': 0.1, 'mode-process': 0.05, 'freq-dependent-distributed-load': 0.4,
                'field-between-computes': 0.1, 'returns-to-earlier-frequency': 0.1, 'sources-replaced': 0.12, 'load-added': 0.1, 'same-field-request-again': 0.15, 'power-level-requested': 0.2}


@st.composite
def loaded_model(draw, big=False):
    case = draw(gen.antenna(env_kinds=('free', 'ideal', 'real'), max_wires=3, max_seg=5 if not big else 8, nsrc=(1, 2),
                            taper_prob=0.1, allow_two=False))
    topo, objs = gen.stand_in_topology(case)
    npl = len(topo.pulses)
    tagsl = [o['tag'] for o in objs]
    lds = []
    for k in draw(st.lists(st.sampled_from(['z', 'rlc', 'trap', 'laplace']), min_size=0, max_size=3)):
        l = draw(gen.lumped_load(kinds=(k,)))
        form = draw(st.sampled_from(['abs', 'all-obj', 'all-obj']))
        if form == 'abs':
            l['attach'] = draw(st.lists(st.integers(0, npl - 1), min_size=1, max_size=2, unique=True))
        else:
            l['attach'] = [{'all': True, 'tag': t} for t in draw(st.lists(st.sampled_from(tagsl), min_size=1, max_size=len(tagsl), unique=True))]
        lds.append(l)
    if draw(st.integers(0, 3)) > 0:
        if draw(st.booleans()):
            lds.append({'kind': draw(st.sampled_from(['skin_c', 'skin_r'])), 'v': gen.r6(draw(gen.logf(1e-7, 1e7))), 'tag': draw(st.sampled_from([None] + tagsl))})
        else:
            # one load per tag, for several tags in a drawn order
            for t_ in draw(st.lists(st.sampled_from(tagsl), min_size=1, max_size=len(tagsl), unique=True)):
                lds.append({'kind': 'skin_c', 'v': gen.r6(draw(gen.logf(1e3, 1e7))), 'tag': t_})
    if draw(st.integers(0, 2)) > 0:
        tg = draw(st.sampled_from([None] + tagsl))
        rr = max(o['obj']['r'] for o in objs) if tg is None else [o['obj']['r'] for o in objs if o['tag'] == tg][0]
        lds.append({'kind': 'ins', 'radius': gen.r6(rr * draw(st.floats(1.2, 3))), 'eps': gen.r6(draw(st.floats(1.0, 6.0))), 'tag': tg})
    case['loads'] = lds
    nat = sum(len(l.get('attach', [])) for l in lds)
    if nat >= 2 and draw(st.booleans()):
        case['attach_perm'] = list(draw(st.permutations(list(range(nat)))))
    return case


@st.composite
def case_strategy(draw, big=False):
    case = draw(loaded_model(big))
    mode = draw(st.sampled_from(['history'] * 6 + ['sweep'] * 2 + ['process'] * 2))
    case['mode'] = mode
    lam = gen.C_MHZ_M / case['f']
    if mode == 'history':
        ops = []
        freqs = [1.0]
        npl = len(gen.stand_in_topology(case)[0].pulses)
        # phases: 0..2 changes (frequency, sources, a further load), a solve (once or twice), 0..3 observations
        # (far field, near field, report; an earlier request is repeated with probability 3/4)
        def change():
            k = draw(st.sampled_from(['f', 'f', 'f', 'sources', 'load']))
            if k == 'sources':
                # the sources of the object are replaced (m.sources = [] and register_source); what was fed before
                # must not matter
                idx = draw(st.lists(st.integers(0, npl - 1), min_size=1, max_size=2, unique=True))
                ops.append(['sources', [{'pulse': j, 'v': draw(gen.voltage())} for j in idx]])
            elif k == 'load':
                ops.append(['load', [gen.r6(draw(gen.logf(1, 1e3))), gen.r6(draw(st.floats(-300, 300)))], draw(st.integers(0, npl - 1))])
            else:
                u_ = draw(st.integers(0, 5))
                if len(freqs) > 1 and u_ <= 2:
                    fac = draw(st.sampled_from(freqs))
                elif u_ == 3:
                    # a very fine step from the last frequency (parts in 1e7..1e5), as in a narrow-band sweep
                    fac = freqs[-1] * (1.0 + draw(st.sampled_from([1e-7, 1e-6, 3e-6, -2e-6, 8e-6, -1e-5])))
                    freqs.append(fac)
                else:
                    fac = gen.r6(draw(st.floats(0.5, 2.0)))
                    freqs.append(fac)
                ops.append(['f', fac])

        def observe():
            k = draw(st.sampled_from(['far', 'far', 'near', 'report']))
            prev = [o for o in ops if o[0] == k]
            if k == 'report':
                ops.append(['report'])
            elif prev and draw(st.integers(0, 3)) > 0:
                op_ = copy.deepcopy(draw(st.sampled_from(prev)))
                if draw(st.integers(0, 3)) == 0:
                    # almost the same request (a fine scan): differs in the sixth digit
                    if k == 'near':
                        op_[1] = [x_ * (1 + 2e-6) + 1e-9 for x_ in op_[1]]
                    else:
                        op_[1][0] = op_[1][0] + 3e-6
                        op_[2][0] = op_[2][0] * (1 + 2e-6) + 1e-6
                ops.append(op_)
            elif k == 'far':
                # (optionally with a power level and distance for the field in V/m)
                pw_ = gen.r6(draw(gen.logf(1e-2, 1e4))) if draw(st.integers(0, 2)) == 0 else None
                ops.append(['far', [gen.r6(draw(st.floats(0, 40))), gen.r6(draw(st.floats(5, 25))), draw(st.integers(1, 4))],
                            [gen.r6(draw(st.floats(0, 360))), gen.r6(draw(st.floats(10, 90))), draw(st.integers(1, 4))], pw_])
            else:
                pw_ = gen.r6(draw(gen.logf(1e-2, 1e4))) if draw(st.integers(0, 2)) == 0 else None
                ops.append(['near', [gen.r6(draw(st.floats(-2, 2)) * lam), gen.r6(draw(st.floats(-2, 2)) * lam), gen.r6(draw(st.floats(0.5, 2)) * lam)], pw_])

        for ph_ in range(draw(st.integers(2, 5 if not big else 7))):
            for _ in range(draw(st.sampled_from([0, 1, 1, 2] if ph_ else [0, 0, 1]))):
                change()
            ops.append([draw(st.sampled_from(['compute', 'compute', 'compute2']))])
            for _ in range(draw(st.integers(0, 3))):
                observe()
        case['ops'] = ops
    elif mode == 'sweep':
        case['steps'] = draw(st.integers(2, 4))
        case['inc'] = gen.r6(case['f'] * (draw(st.floats(0.01, 0.3)) if draw(st.integers(0, 3)) else draw(st.sampled_from([1e-6, 5e-6, 2e-5]))))
        case['fields'] = draw(st.sampled_from(['far', 'near', 'none']))
        case['near'] = [gen.r6(draw(st.floats(-2, 2)) * lam), gen.r6(draw(st.floats(-2, 2)) * lam), gen.r6(draw(st.floats(0.5, 2)) * lam)]
    else:
        case['fields'] = draw(st.sampled_from(['far', 'none', 'far+abs', 'far+near', 'all', 'all']))
    return case


def strategy(tier):
    return case_strategy(big=tier == 'thorough')


def rel(a, b):
    a, b = np.asarray(a), np.asarray(b)
    if a.shape != b.shape:
        return float('inf')
    d = np.abs(a - b).max() if a.size else 0.0
    s = max(np.abs(b).max() if b.size else 0.0, 1e-300)
    return float(d / s)


def history(case, labels):
    fails = []
    base = {k: v for k, v in case.items() if k not in ('ops', 'mode')}
    try:
        m = build.model(base)
    except build.Rejected as e:
        return None, 'rejected: ' + str(e)[:40]
    A = build.mm.Angle
    f0 = case['f']
    cur_f = f0
    computed = False
    nfreq = {1.0}
    last_compute_f = None
    seen_field_since_compute = False
    dist_dep = any(l['kind'] in ('skin_c', 'skin_r', 'ins') for l in case['loads'])

    cur_src = [None]
    added = []

    def fresh():
        c2 = copy.deepcopy(base)
        c2['f'] = cur_f
        if cur_src[0] is not None:
            c2['sources'] = copy.deepcopy(cur_src[0])
        if added:
            c2['_added_loads'] = copy.deepcopy(added)
        m2 = build.model(c2)
        for l_ in c2.get('_added_loads') or []:
            m2.register_load(build.mm.Impedance_Load(complex(*l_['z'])), l_['attach'][0])
        m2.compute()
        return m2

    hist = []
    done_fields = []
    for op in case['ops']:
        hist.append(op[0] if op[0] != 'f' else 'f=%g' % op[1])
        if op[0] == 'f':
            cur_f = f0 * op[1]
            if op[1] in nfreq and len(nfreq) > 1:
                labels.append('returns-to-earlier-frequency')
            nfreq.add(op[1])
            m.f = cur_f
            computed = False
            continue
        if op[0] == 'sources':
            labels.append('sources-replaced')
            cur_src[0] = [dict(s_, _idx=s_['pulse']) for s_ in op[1]]
            m.sources = []
            for s_ in op[1]:
                m.register_source(build.mm.Excitation(complex(*s_['v'])), s_['pulse'])
            computed = False
            continue
        if op[0] == 'load':
            # a further lumped load is registered on the living object
            labels.append('load-added')
            added.append({'kind': 'z', 'z': list(op[1]), 'attach': [op[2]]})
            m.register_load(build.mm.Impedance_Load(complex(*op[1])), op[2])
            computed = False
            continue
        if op[0] in ('compute', 'compute2'):
            m.compute()
            if op[0] == 'compute2':
                m.compute()
            if seen_field_since_compute:
                labels.append('field-between-computes')
            seen_field_since_compute = False
            computed = True
            m2 = fresh()
            e = rel(m.current, m2.current)
            if e > 1e-12:
                fails.append(('history:currents', 'after %s: currents differ from a fresh model at %.9g MHz by %.3g' % (hist, cur_f, e)))
                break
            for a, b in zip(m.sources, m2.sources):
                if abs(a.impedance - b.impedance) > 1e-12 * abs(b.impedance):
                    fails.append(('history:impedance', 'after %s: %r vs fresh %r' % (hist, a.impedance, b.impedance)))
            continue
        if not computed:
            continue
        if not (m.power > 0):
            continue
        m2 = fresh()
        if op[0] in ('far', 'near') and any(o == op for o in done_fields):
            labels.append('same-field-request-again')
        if op[0] in ('far', 'near'):
            done_fields.append(op)
        if op[0] == 'far':
            seen_field_since_compute = True
            kwf = {'pwr': op[3], 'dist': 1000.0} if len(op) > 3 and op[3] else {}
            if kwf:
                labels.append('power-level-requested')
            m.compute_far_field(A(*op[1]), A(*op[2]), **kwf)
            m2.compute_far_field(A(*op[1]), A(*op[2]), **kwf)
            g1, g2 = np.array(m.far_field.gain), np.array(m2.far_field.gain)
            if g1.shape != g2.shape or np.abs(g1 - g2).max() > 1e-9:
                fails.append(('history:far-field', 'after %s: pattern differs from a fresh model by %.3g dB' % (hist, np.abs(g1 - g2).max())))
                break
            # the field itself (V/m or, without a distance, V): the level must not be inherited from earlier requests
            ea = max(rel(m.far_field.e_theta, m2.far_field.e_theta), rel(m.far_field.e_phi, m2.far_field.e_phi))
            sc_ = max(np.abs(np.array(m2.far_field.e_theta)).max(), np.abs(np.array(m2.far_field.e_phi)).max(), 1e-300)
            ea = max(np.abs(np.array(m.far_field.e_theta) - np.array(m2.far_field.e_theta)).max(),
                     np.abs(np.array(m.far_field.e_phi) - np.array(m2.far_field.e_phi)).max()) / sc_
            if ea > 1e-9:
                fails.append(('history:far-field:absolute', 'after %s: the field in V/m differs from a fresh model by %.3g of its maximum' % (hist, ea)))
                break
        elif op[0] == 'near':
            seen_field_since_compute = True
            kwn = {'pwr': op[2]} if len(op) > 2 and op[2] else {}
            if kwn:
                labels.append('power-level-requested')
            m.compute_near_field(op[1], [1, 1, 1], [1, 1, 1], **kwn)
            m2.compute_near_field(op[1], [1, 1, 1], [1, 1, 1], **kwn)
            e = max(rel(m.e_field[0], m2.e_field[0]), rel(m.h_field[0], m2.h_field[0]))
            if e > 1e-12:
                fails.append(('history:near-field', 'after %s: near field differs from a fresh model by %.3g' % (hist, e)))
                break
        elif op[0] == 'report':
            t1, t2 = m.as_mininec(options=set()), m2.as_mininec(options=set())
            if t1 != t2:
                l1, l2 = t1.split('\n'), t2.split('\n')
                diff = [(a, b) for a, b in zip(l1, l2) if a != b][:2]
                fails.append(('history:report-text', 'after %s: report differs from a fresh run: %s' % (hist, diff)))
                break
    if len(nfreq) >= 2 and dist_dep:
        labels.append('freq-dependent-distributed-load')
    nt = (len(nfreq) >= 2 and dist_dep) or 'field-between-computes' in labels
    return (fails, nt), None


def sweep(case, labels):
    base = {k: v for k, v in case.items() if k not in ('mode', 'steps', 'inc', 'fields', 'near')}
    build.assign_tags(base)
    argv0 = build.argv_of(base)
    extra = []
    if case['fields'] == 'near':
        extra = ['--near-field=%r,%r,%r,1,1,1,1,1,1' % tuple(case['near'])]
    elif case['fields'] == 'none':
        extra = ['--option=none']
    else:
        extra = ['--theta=10,20,3', '--phi=0,45,3']
    try:
        r, out, err = build.run_main(argv0 + extra + ['--frequency-steps=%d' % case['steps'], '--frequency-increment=%r' % case['inc']], False)
    except AssertionError:
        return None, 'taper assertion'
    except Exception as e:
        return None, 'exception in sweep (judged by C20): ' + type(e).__name__
    if r is not None:
        return None, 'rejected: ' + (out + err)[:40]
    if 'NAN' in out.upper().replace('MININEC', ''):
        return None, 'non-finite output (judged by C20)'
    blocks = out.split('FREQUENCY (MHZ):')[1:]
    fails = []
    if len(blocks) != case['steps']:
        return ([('sweep:steps', '%d frequency blocks for %d steps' % (len(blocks), case['steps']))], True), None
    dist_dep = any(l['kind'] in ('skin_c', 'skin_r', 'ins') for l in case['loads'])
    if dist_dep:
        labels.append('freq-dependent-distributed-load')
    for k in range(case['steps']):
        fk = case['f'] + k * case['inc']
        a2 = ['-f', repr(fk)] + argv0[2:] + extra
        r2, out2, err2 = build.run_main(a2, False)
        if r2 is not None:
            return None, 'rejected single: ' + (out2 + err2)[:40]
        want = out2[out2.index('*' * 20 + '    SOURCE DATA'):].rstrip('\n')
        blk = blocks[k]
        got = blk[blk.index('*' * 20 + '    SOURCE DATA'):].rstrip('\n')
        if got != want:
            l1, l2 = got.split('\n'), want.split('\n')
            diff = [(a, b) for a, b in zip(l1, l2) if a != b][:2]
            fails.append(('sweep:step-differs-from-single-run', 'step %d (%.9g MHz): %s' % (k, fk, diff)))
            break
    return (fails, dist_dep), None


def process(case, labels):
    base = {k: v for k, v in case.items() if k not in ('mode', 'fields')}
    build.assign_tags(base)
    argv = build.argv_of(base)
    fld = case['fields']
    if fld == 'none':
        argv += ['--option=none']
    else:
        argv += ['--theta=10,20,3', '--phi=0,45,3']
        if fld != 'far':
            # several field tables in one report: their order is part of the report
            opts_ = {'far+abs': ['far-field', 'far-field-absolute'], 'far+near': ['far-field', 'near-field'],
                     'all': ['near-field', 'far-field-absolute', 'far-field']}[fld]
            argv += ['--option=' + o_ for o_ in opts_]
            if 'near-field' in opts_:
                lam_ = gen.C_MHZ_M / case['f']
                argv += ['--near-field=%r,%r,%r,1,1,1,1,1,1' % (2.0 * lam_, 1.5 * lam_, 2.5 * lam_)]
            if 'far-field-absolute' in opts_:
                argv += ['--ff-distance=1000']
            labels.append('several-field-tables')
    nwhole = sum(1 for l in case['loads'] for a in l.get('attach', []) if isinstance(a, dict) and a.get('all'))
    outs = []
    tmp = tempfile.mkdtemp(prefix='pvc14.')
    try:
        for i, hs in enumerate(['0', '1', '2', 'random']):
            env = dict(os.environ)
            env['PYTHONHASHSEED'] = hs
            env['PYTHONDONTWRITEBYTECODE'] = '1'
            f1, f2 = os.path.join(tmp, 'cmd%d' % i), os.path.join(tmp, 'bas%d' % i)
            code = 'import sys; sys.path.insert(0, %r); from mininec.mininec import main; sys.exit(main() or 0)' % build.REPO
            kinds = set(l['kind'] for l in case['loads'])
            mixed = bool(kinds & {'rlc', 'trap', 'laplace'}) and bool(kinds & {'z', 'skin_c', 'skin_r', 'ins'})
            outopts = ['--output-cmdline=' + f1] + ([] if mixed else ['--output-basic-input=' + f2])
            p = subprocess.run([sys.executable, '-c', code] + argv + outopts,
                               env=env, capture_output=True, text=True, timeout=300)
            if p.returncode not in (0, 23):
                return None, 'process ended with %d (judged by C20): %s' % (p.returncode, p.stderr.strip().split('\n')[-1][:80])
            if p.returncode == 23:
                return None, 'rejected: ' + (p.stdout + p.stderr)[:40]
            outs.append((p.stdout, open(f1).read() if os.path.exists(f1) else None, open(f2).read() if os.path.exists(f2) else None))
    finally:
        shutil.rmtree(tmp, ignore_errors=True)
    fails = []
    for name, i in (('stdout', 0), ('option-file', 1), ('basic-input', 2)):
        vals = [o[i] for o in outs]
        if any(v != vals[0] for v in vals[1:]):
            a = vals[0].split('\n')
            b = [v for v in vals if v != vals[0]][0].split('\n')
            diff = [(x, y) for x, y in zip(a, b) if x != y][:2]
            fails.append(('process:%s-differs-between-runs' % name, 'with %d whole-object attachments: %s' % (nwhole, diff)))
    if nwhole >= 2:
        labels.append('whole-object-attachments>=2')
    return (fails, nwhole >= 2), None


def check(case):
    labels = common.base_labels(case) + ['mode-' + case['mode']]
    for l in case['loads']:
        labels.append('load-' + l['kind'])
    fn = {'history': history, 'sweep': sweep, 'process': process}[case['mode']]
    res, skip = fn(case, labels)
    if skip:
        return Result(skipped=skip)
    fails, nt = res
    uniq = {}
    for s_, d_ in fails:
        uniq.setdefault(s_, d_)
    return Result(fails=list(uniq.items()), nontrivial=bool(nt), labels=sorted(set(labels)))
