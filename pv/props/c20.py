"""C20 Command line is fail-safe: complete finite report or one-line diagnostic."""
import io
import os
import re
import shutil
import tempfile
import traceback
import contextlib
import numpy as np
from hypothesis import strategies as st

from .. import build, gen
from ..runner import Result
from ..ref import report

ID = 'C20'
RULE = ('Generated: argument lists from a grammar over all documented options (geometry: wires, arcs, helices with and '
        'without tags, tapering, rotate / translate / scale; environment: media, boundary, radials; sources; all load '
        'kinds and attachments; field requests and options; frequency sweep; output files).  Each case draws a '
        'hostility level: 45 % only valid values, 35 % exactly one hostile slot, 20 % several; hostile values are 0, -1, '
        '1e-300, 1e300, nan, inf, -inf, empty, wrong arity (+-1), unknown tag, duplicate tag, non-numeric text, huge '
        'integers; plus contradictory combinations (radials with ideal ground, field option without grid, load '
        'without attachment, taper on an arc, duplicate / coincident / zero-length wires, steps without increment).  '
        'Counts are bounded (segments <= 40, grid counts <= 12, frequency steps <= 3).  Oracle: main(argv, f_err) ends in '
        'exactly one of: return None with a complete parsable report of finite numbers; return 23 with exactly one '
        'non-empty line on stdout + f_err and no report; SystemExit(2) from the option parser.  Non-trivial = a hostile '
        'value or contradictory combination that passes the option parser.')
BUDGET = {'quick': {'examples': 12000, 'wall': 220}, 'thorough': {'examples': 200000, 'wall': 1500}}
ASSUMPTIONS = ['unbounded resource use (e.g. 1e9 segments) is out of scope: counts are bounded by the generator',
               'exceptions are bucketed by (type, innermost function of the package)']
LABEL_FLOORS = {'outcome-report': 0.2, 'outcome-diagnostic': 0.2, 'hostile': 0.4}
FLOOR_EXCLUDE_LABEL = 'fuzz-campaign'       # floors are fractions of the generated part

HOSTILE_NUM = ['0', '-1', '1e-300', '1e300', 'nan', 'inf', '-inf', '', 'x', '-0', '1e-40', '3.5', '1e6', '1e308', '-1e308', '1e150',
               '1e-315', '5e-324', '1e-160']      # (subnormal values and a value whose square underflows)
HOSTILE_CPLX = ['0', '0j', 'nan', 'nanj', 'inf', 'inf+1j', '1e300', '1e308+1e308j', '-1', '1e-300j', 'x', '', '1+', '(1+1j)']
HOSTILE_INT = ['0', '-1', '', 'x', '1.5', 'nan', '2', '77']
HOSTILE_PULSE = HOSTILE_INT + ['99999']
HOSTILE_COUNT = ['0', '-1', '', 'x', '1.5', 'nan', '2', '1']      # counts stay small: resource use is out of scope


def fmt(x):
    return '%.6g' % x


@st.composite
def argv_strategy(draw, big=False):
    level = draw(st.sampled_from(['valid'] * 9 + ['one'] * 7 + ['several'] * 4))
    slots = []       # mutable list of [value, kind] that may be made hostile

    def num(v, kind='f'):
        s = [v if isinstance(v, str) else fmt(v), kind]
        slots.append(s)
        return s

    opts = []        # list of (option name, list of slot lists, joiner)

    def add(name, fields):
        opts.append((name, fields))

    f = draw(st.sampled_from([7.0, 14.2, 28.5, 144.0, 3.6]))
    lam = 299.8 / f
    if draw(st.integers(0, 9)) > 1:
        add('-f', [num(f)])
    # geometry: a chain of wires starting at the origin (over ground: rising), optionally an arc / helix
    ground = draw(st.sampled_from(['free', 'free', 'ideal', 'real']))
    contra = level != 'valid'       # contradictory / degenerate combinations only in the hostile levels
    nw = draw(st.integers(0, 3))
    on_ground = ground != 'free' and draw(st.booleans())
    p = np.array([0.0, 0.0, 0.0 if on_ground else round(draw(st.floats(0.2, 1.0)) * lam, 3)])
    dirs = [(0, 0, 1), (1, 0, 0), (0, 1, 0), (1, 1, 1), (0, 0, 1), (-1, 0, 1)]
    tagged = draw(st.booleans())
    pool = draw(gen.shuffled([1, 2, 3, 4, 5, 7, 9, 12]))
    objs = []         # (type order, explicit tag or None, pulse count, is wire)
    nobj = 0
    npulse = 0
    last_d = None
    for i in range(nw):
        cand = [k for k in range(len(dirs)) if not (i == 0 and on_ground and dirs[k][2] == 0)]
        d = np.array(dirs[cand[draw(st.integers(0, len(cand) - 1))]], float)
        d /= np.linalg.norm(d)
        if last_d is not None and abs(d @ last_d + 1) < 1e-9:
            d = last_d
        last_d = d
        n = draw(st.integers(1, 12 if not big else 40))
        if draw(st.integers(0, 24)) == 0:
            n = draw(st.sampled_from([64, 90, 100, 110, 128, 150]))        # occasionally a long, finely divided wire
        L = n * lam * draw(st.sampled_from([0.02, 0.04, 0.05]))
        q = p + d * L
        flds = []
        tag = pool[nobj] if tagged else None
        if tag is not None:
            flds.append(num(str(tag), 'i'))
        flds.append(num(str(n), 'n'))
        pts = (list(p) + list(q)) if draw(st.booleans()) else (list(q) + list(p))
        flds += [num(round(x, 4)) for x in pts]
        flds.append(num(draw(st.sampled_from([0.001, 0.0005, 0.01, 1e-5]))))
        add('--wire', flds)
        cnt = n - 1 + (1 if i > 0 else (1 if on_ground else 0))
        objs.append([2, tag, cnt, True])
        nobj += 1
        npulse += cnt
        p = q
        if contra and draw(st.integers(0, 5)) == 0:
            # duplicate / coincident wire (same tag: duplicate tag)
            add('--wire', [list(s_) for s_ in flds])
    if draw(st.integers(0, 5)) == 0:
        flds = []
        tag = pool[nobj] if tagged else None
        if tag is not None:
            flds.append(num(str(tag), 'i'))
        na = draw(st.integers(3, 8))
        a2 = draw(st.sampled_from([90.0, 180.0, 360.0, 270.0]))
        flds += [num(str(na), 'n'), num(round(0.1 * lam, 3)), num(0.0), num(a2), num(0.001)]
        add('--arc', flds)
        # arcs are created around the origin in the x-z plane: lift them over ground
        objs.append([0, tag, na - 1 + (1 if a2 == 360.0 else 0), False])
        if ground != 'free':
            add('--geo-translate', [num(9.0), num(round(3 * lam, 2)), num(0.0), num(round(0.3 * lam, 3)), num(str(tag), 'i')] if tag is not None
                else [num(9.0), num(0.0), num(0.0), num(round(0.3 * lam, 3))])
        nobj += 1
        npulse += objs[-1][2]
    if draw(st.integers(0, 5)) == 0:
        flds = []
        tag = pool[nobj] if tagged else None
        if tag is not None:
            flds.append(num(str(tag), 'i'))
        nh = draw(st.integers(6, 16))
        flds += [num(str(nh), 'n'), num(round(0.2 * lam, 3) * draw(st.sampled_from([1, -1]))),
                 num(round(0.1 * lam, 3) * draw(st.sampled_from([1, -1]))), num(0.001), num(round(0.03 * lam, 4)), num(round(0.03 * lam, 4))]
        if draw(st.booleans()):
            flds += [num(round(0.02 * lam, 4)), num(round(0.025 * lam, 4))]
        add('--helix', flds)
        objs.append([1, tag, nh - 1 + (1 if ground != 'free' else 0), False])
        nobj += 1
        npulse += objs[-1][2]
    # effective tags: explicit ones as given, automatic ones numbered arcs, helices, wires
    order_ = sorted(range(len(objs)), key=lambda i_: (objs[i_][0], i_))
    for pos, i_ in enumerate(order_):
        if objs[i_][1] is None:
            objs[i_][1] = pos + 1
    if not objs:
        objs = [[2, 1, 9, True]]          # the built-in default wire
        npulse = 9
    npulse = max(npulse, 1)
    withpulses = [o for o in objs if o[2] >= 1] or objs

    def anytag(wire_only=False):
        c_ = [o for o in objs if o[3]] if wire_only else objs
        c_ = c_ or objs
        return num(str(c_[draw(st.integers(0, len(c_) - 1))][1]), 'i')

    if draw(st.integers(0, 5)) == 0 and (contra or any(o[3] for o in objs)):
        add('--taper-wire', [anytag(wire_only=not (contra and draw(st.booleans()))), num(str(draw(st.integers(1, 3))), 'i')]
            + ([num(round(0.005 * lam, 4))] if draw(st.booleans()) else []) + ([num(round(0.06 * lam, 4))] if draw(st.integers(0, 3)) == 0 else []))
    long_ = [o for o in objs if o[3] and o[2] >= 60]
    if long_ and draw(st.booleans()):
        # tapering a long, finely divided wire (from both ends, mostly) with a maximum segment length
        add('--taper-wire', [num(str(long_[0][1]), 'i'), num(str(draw(st.sampled_from([3, 3, 1, 2]))), 'i'), num(0.0),
                             num(round(draw(st.sampled_from([0.06, 0.08, 0.1, 0.15])) * lam, 4))])
    for i in range(draw(st.sampled_from([0, 0, 0, 1, 2]))):
        kind = draw(st.sampled_from(['--geo-rotate', '--geo-translate']))
        # equal sort keys are legitimate: such transformations are applied in the order given
        flds = [num(float(i + 1) if draw(st.integers(0, 2)) else draw(st.sampled_from([1.0, 9.0, 0.0])))]
        if kind == '--geo-rotate':
            flds += [num(0.0), num(0.0), num(draw(st.sampled_from([30.0, 90.0, -45.0])))] if ground != 'free' else [num(round(draw(st.floats(-90, 90)), 2)) for _ in range(3)]
        else:
            flds += [num(round(draw(st.floats(-1, 1)) * lam, 3)), num(round(draw(st.floats(-1, 1)) * lam, 3)), num(round(draw(st.floats(0, 1)) * lam, 3) if not on_ground or contra else 0.0)]
        if draw(st.integers(0, 3)) == 0 and (len(objs) == 1 or contra):
            flds.append(anytag())
        add(kind, flds)
    if draw(st.integers(0, 7)) == 0:
        add('--geo-scale', [num(draw(st.sampled_from([0.5, 2.0, 1.0] + ([5e-324, 1e-315, 1e300] if contra else []))))] + ([anytag()] if (len(objs) == 1 or contra) and draw(st.integers(0, 3)) == 0 else []))
    # environment
    if ground == 'ideal':
        add('--medium', [num(0.0), num(0.0), num(0.0)])
        if contra and draw(st.integers(0, 6)) == 0:
            add('--radial-count', [num('8', 'n')])
    elif ground == 'real':
        nm = draw(st.integers(1, 3))
        for i in range(nm):
            flds = [num(draw(st.sampled_from([13.0, 5.0, 80.0]))), num(draw(st.sampled_from([0.005, 0.001, 5.0]))), num(0.0 if i == 0 else -draw(st.sampled_from([0.0, 1.0, 5.0])))]
            if i < nm - 1 or (contra and draw(st.integers(0, 5)) == 0):
                flds.append(num(round((i + 1) * 0.5 * lam, 2)))
            add('--medium', flds)
        if draw(st.integers(0, 2)) == 0:
            add('--boundary', [[draw(st.sampled_from(['linear', 'circular'])), 's']])
        if draw(st.integers(0, 3)) == 0 and (nm > 1 or contra):
            add('--radial-count', [num(str(draw(st.sampled_from([4, 16, 60]))), 'n')])
            if not contra or draw(st.integers(0, 4)) > 0:
                add('--radial-radius', [num(0.001)])
    elif contra and draw(st.integers(0, 9)) == 0:
        add('--radial-count', [num('8', 'n')])
    # sources
    ns = draw(st.sampled_from([1, 1, 1, 2, 3] + ([0] if npulse >= 5 else [])))
    used = []
    for i in range(ns):
        if draw(st.booleans()):
            pn = draw(st.integers(1, npulse))
            add('--excitation-pulse', [num(str(pn), 'p')])
        else:
            o = withpulses[draw(st.integers(0, len(withpulses) - 1))]
            add('--excitation-pulse', [num(str(draw(st.integers(1, max(1, o[2])))), 'i'), num(str(o[1]), 'i')])
        if ns > 1 or draw(st.integers(0, 2)) > 0 or (contra and draw(st.integers(0, 5)) == 0):
            v = draw(st.sampled_from(['1', '1+1j', '-2.5j', '0.5-0.5j', '100', '1e-3j']))
            add('--excitation-voltage', [num(v, 'c')])
        if contra and draw(st.integers(0, 9)) == 0:
            add('--excitation-voltage', [['2', 'c']])       # count mismatch
    # loads
    nld = 0
    for i in range(draw(st.sampled_from([0, 0, 1, 1, 2, 3]))):
        k = draw(st.sampled_from(['--load', '--rlc-load', '--trap-load', 'laplace']))
        if k == '--load':
            add(k, [num(draw(st.sampled_from(['50', '50+3j', '10-20j', '0', '1e6', '-5+1j'])), 'c')])
        elif k == '--rlc-load':
            flds = [num(draw(st.sampled_from([1.0, 100.0, 0.0]))), num(draw(st.sampled_from([1e-6, 1e-6, 0.0]))), num(draw(st.sampled_from([1e-9, 1e-9, 0.0])))]
            m_ = draw(st.sampled_from(['RLC', 'RL', 'R', 'LC', 'C', 'RC']))
            flds = [fl if c in m_ else ['', 'e'] for fl, c in zip(flds, 'RLC')]
            add(k, flds)
        elif k == '--trap-load':
            add(k, [num(1.0), num(1e-6), num(1e-10)])
        else:
            add('--laplace-load-a', [num(1.0)] + ([num(1e-7)] if draw(st.booleans()) else []))
            if contra and draw(st.integers(0, 7)) == 0:
                # a long coefficient list: the powers of s reach beyond the range of a float
                nco = draw(st.sampled_from([30, 45, 54, 70]))
                add('--laplace-load-b', [num(1.0)] + [num(0.0) for _ in range(nco - 2)] + [num(draw(st.sampled_from([0.0, 1e-300, 1.0])))])
            elif draw(st.integers(0, 5)) > 0:
                add('--laplace-load-b', [num(5.0), num(1e-6)] + ([num(1e-13)] if draw(st.booleans()) else []))
        nld += 1
        for j in range(draw(st.sampled_from([0, 1, 1, 2] if contra else [1, 1, 2]))):
            form = draw(st.sampled_from(['abs', 'obj', 'all', 'allobj']))
            ln = num(str(nld if not contra else draw(st.integers(1, max(1, nld)))), 'i')
            if form == 'abs':
                add('--attach-load', [ln, num(str(draw(st.integers(1, npulse))), 'p')])
            elif form == 'obj':
                o = withpulses[draw(st.integers(0, len(withpulses) - 1))]
                add('--attach-load', [ln, num(str(draw(st.integers(1, max(1, o[2])))), 'i'), num(str(o[1]), 'i')])
            elif form == 'all':
                add('--attach-load', [ln, ['all', 's']])
            else:
                add('--attach-load', [ln, ['all', 's'], anytag()])
    if nld == 0 and contra and draw(st.integers(0, 9)) == 0:
        add('--attach-load', [num('1', 'i'), num('1', 'i')])
    if draw(st.integers(0, 5)) == 0:
        add(draw(st.sampled_from(['--skin-effect-conductivity', '--skin-effect-resistivity'])),
            [num(draw(st.sampled_from([5.8e7, 1e3, 1e-7])))] + ([anytag()] if draw(st.booleans()) else []))
    if draw(st.integers(0, 5)) == 0:
        add('--insulation-load', [num(draw(st.sampled_from([0.02, 0.05] + ([0.002, 0.0005] if contra else [])))), num(draw(st.sampled_from([2.5, 1.0, 10.0])))] + ([anytag()] if draw(st.booleans()) else []))
    # fields
    if draw(st.integers(0, 3)) > 0:
        add('--theta', [num(draw(st.sampled_from([0.0, 10.0, 45.0]))), num(draw(st.sampled_from([10.0, 30.0, 0.0]))), num(str(draw(st.integers(1, 6 if not big else 12))), 'n')])
    if draw(st.integers(0, 3)) > 0:
        add('--phi', [num(draw(st.sampled_from([0.0, 90.0, -30.0]))), num(draw(st.sampled_from([45.0, 90.0, 360.0]))), num(str(draw(st.integers(1, 5))), 'n')])
    near = draw(st.integers(0, 3)) == 0
    if near:
        nf_ = [num(round(draw(st.floats(-1, 1)) * lam, 2)) for _ in range(3)] + [num(draw(st.sampled_from([0.5, 0.1, 1.0, 0.0]))) for _ in range(3)] \
            + [num(str(draw(st.integers(1, 2))), 'n') for _ in range(3)]
        if contra and draw(st.integers(0, 2)) == 0:
            # an axis at the edge of the floating-point range: the last point is finite, the next one is not
            ax_ = draw(st.integers(0, 2))
            s0_, i0_, c0_ = draw(st.sampled_from([('1e308', '1e308', '1'), ('1.7e308', '5e306', '2'), ('-1e308', '-1e308', '1'),
                                                  ('9e307', '9e307', '2'), ('1e308', '7e307', '1')]))
            nf_[ax_][0], nf_[3 + ax_][0], nf_[6 + ax_][0] = s0_, i0_, c0_
        add('--near-field', nf_)
    for i in range(draw(st.sampled_from([0, 0, 1, 1, 2]))):
        add('--option', [[draw(st.sampled_from(['far-field', 'far-field-absolute', 'none'] + (['near-field'] if near or contra else []))), 's']])
    if draw(st.integers(0, 6)) == 0:
        add('--ff-power', [num(draw(st.sampled_from([100.0, 1e-3, 1e6])))])
    if draw(st.integers(0, 6)) == 0:
        add('--ff-distance', [num(draw(st.sampled_from([1000.0, 1.0, 1e6])))])
    if draw(st.integers(0, 6)) == 0:
        add('--nf-power', [num(draw(st.sampled_from([100.0, 1e-3])))])
    if draw(st.integers(0, 7)) == 0:
        nst = draw(st.integers(1, 3))
        add('--frequency-steps', [num(str(nst), 'n')])
        if draw(st.integers(0, 3)) > 0:
            # (downward sweeps may end exactly at 0 MHz or cross it)
            add('--frequency-increment', [num(draw(st.sampled_from([0.5, 1.0, -0.1, -f, -f / 2, -f / max(1, nst - 1), -2 * f])))])
    outfiles = []
    if draw(st.integers(0, 3)) == 0:
        outfiles.append('--output-cmdline')
    if draw(st.integers(0, 3)) == 0:
        outfiles.append('--output-basic-input')
        if draw(st.booleans()):
            add('--mininec-version', [[draw(st.sampled_from(['9', '12', '13'])), 's']])
    # hostility
    hostile = 0
    cand = [s for s in slots]
    if level != 'valid' and cand:
        k = 1 if level == 'one' else draw(st.integers(2, 4))
        # the option is drawn first (uniformly over the distinct option names present), then one of its value slots:
        # rarely used options get the same share of hostile values as the many coordinates of the wires
        groups = {}
        for name_, flds_ in opts:
            for f_ in flds_:
                if any(f_ is c_ for c_ in cand):
                    groups.setdefault(name_, []).append(f_)
        names_ = sorted(groups)
        for _ in range(k):
            if names_ and draw(st.integers(0, 3)) > 0:
                g_ = groups[names_[draw(st.integers(0, len(names_) - 1))]]
                s = g_[draw(st.integers(0, len(g_) - 1))]
            else:
                s = cand[draw(st.integers(0, len(cand) - 1))]
            s[0] = draw(st.sampled_from(HOSTILE_INT if s[1] == 'i' else HOSTILE_CPLX if s[1] == 'c' else HOSTILE_PULSE if s[1] == 'p' else HOSTILE_COUNT if s[1] == 'n' else HOSTILE_NUM))
            hostile += 1
    arity = 0
    if level == 'several' and opts and draw(st.booleans()):
        # wrong arity on one multi-field option
        multi = [o for o in opts if len(o[1]) >= 2]
        if multi:
            o = multi[draw(st.integers(0, len(multi) - 1))]
            if draw(st.booleans()):
                o[1].pop()
            else:
                o[1].append(['1', 'i'])
            arity = 1
    order = draw(gen.shuffled(list(range(len(opts))))) if draw(st.integers(0, 3)) == 0 else list(range(len(opts)))
    argv = []
    for i in order:
        name, flds = opts[i]
        val = ','.join(f_[0] for f_ in flds)
        if name in ('-f',):
            argv += ['-f', val]
        else:
            argv.append(name + '=' + val)
    return {'argv': argv, 'outfiles': outfiles, 'level': level, 'hostile': hostile + arity}


def strategy(tier):
    return argv_strategy(big=tier == 'thorough')


def classify_exception(e):
    tb = traceback.extract_tb(e.__traceback__)
    fr = [f for f in tb if os.sep + 'mininec' + os.sep in f.filename]
    where = fr[-1].name if fr else '?'
    return '%s@%s' % (type(e).__name__, where), ('%s at %s:%s: %s' % (type(e).__name__, where, fr[-1].lineno if fr else 0, str(e)[:150]))


def run(argv, outfiles):
    tmp = None
    extra = []
    if outfiles:
        tmp = tempfile.mkdtemp(prefix='pvc20.')
        for i, o in enumerate(outfiles):
            extra.append('%s=%s' % (o, os.path.join(tmp, 'f%d' % i)))
    out, err, err2 = io.StringIO(), io.StringIO(), io.StringIO()
    try:
        with contextlib.redirect_stdout(out), contextlib.redirect_stderr(err2), np.errstate(all='ignore'):
            import warnings
            with warnings.catch_warnings():
                warnings.simplefilter('ignore')
                r = build.mm.main(list(argv) + extra, f_err=err)
        return 'return', r, out.getvalue(), err.getvalue() + err2.getvalue(), None
    except SystemExit as e:
        return 'exit', e.code, out.getvalue(), err.getvalue() + err2.getvalue(), None
    except BaseException as e:
        return 'exception', None, out.getvalue(), err.getvalue() + err2.getvalue(), e
    finally:
        if tmp:
            shutil.rmtree(tmp, ignore_errors=True)


REPORT_MARK = 'MINI-NUMERICAL ELECTROMAGNETICS CODE'


def check(case):
    argv = case['argv']
    kind, r, out, err, exc = run(argv, case.get('outfiles') or [])
    labels = ['level-' + case.get('level', '?')]
    if case.get('hostile'):
        labels.append('hostile')
    fails = []
    nt = False
    if kind == 'exit':
        labels.append('outcome-usage')
        if r != 2:
            fails.append(('exit-code-%r' % r, 'SystemExit(%r)' % r))
        return Result(fails=fails, nontrivial=False, labels=labels)
    nt = bool(case.get('hostile'))
    if kind == 'exception':
        sig, detail = classify_exception(exc)
        labels.append('outcome-exception')
        return Result(fails=[('exception:' + sig, detail + '   argv: ' + ' '.join(argv)[:300])], nontrivial=nt, labels=labels)
    if r is None:
        labels.append('outcome-report')
        if err.strip():
            # timing output (-T) would go here; we never pass -T
            fails.append(('report-and-diagnostic', 'report returned but diagnostics written: %r' % err.strip()[:200]))
        if report.has_nonfinite(out):
            # which section?
            sec = 'unknown'
            for line in out.split('\n'):
                if line.startswith('*' * 20):
                    sec = line.strip('* ').strip()
                if re.search(r'(?i)\b(nan|inf|infinity)\b', line):
                    break
            fails.append(('non-finite-in-report:' + sec, 'report prints NaN / INF in section %r: %r   argv: %s'
                          % (sec, [l for l in out.split('\n') if re.search(r'(?i)\b(nan|inf)\b', l)][:2], ' '.join(argv)[:300])))
        else:
            # a field table that is announced must hold at least one row (a request for zero angles is a diagnostic)
            blocks = out.split('PATTERN DATA')[1:]
            for blk in blocks:
                body = re.split(r'\*{20}', blk.split('\n', 1)[1] if '\n' in blk else '')[0]
                if not any(re.match(r'^\s*-?[\d.]', l) for l in body.split('\n')):
                    fails.append(('incomplete-report:empty-pattern-table', 'PATTERN DATA section without a single row   argv: %s' % ' '.join(argv)[:300]))
                    break
            sweep = out.count('FREQUENCY (MHZ)') != 1 or (out.find('FREQUENCY (MHZ)') > out.find('ENVIRONMENT'))
            if not sweep:
                try:
                    rep = report.parse(out)
                    if not report.all_numbers_finite(rep):
                        fails.append(('non-finite-number', 'a parsed number is not finite'))
                except report.ParseError as e:
                    # numbers of absurd magnitude (1e150 m) make columns run into each other; that is ugly but the
                    # property asks for a complete report of finite numbers: fall back to the structural check
                    need = ['FREQUENCY (MHZ)', 'ENVIRONMENT', 'NO. OF GEO-OBJECTS', 'ANTENNA GEOMETRY', 'NO. OF SOURCES',
                            'NUMBER OF LOADS', 'SOURCE DATA', 'CURRENT DATA']
                    missing = [n_ for n_ in need if n_ not in out]
                    huge = re.search(r'\d{25,}', out) is not None
                    if missing or not huge:
                        fails.append(('incomplete-report', 'report does not parse: %s   argv: %s' % (str(e)[:200], ' '.join(argv)[:300])))
                    else:
                        labels.append('report-with-colliding-columns')
            else:
                if REPORT_MARK not in out or 'CURRENT DATA' not in out:
                    fails.append(('incomplete-report:sweep', 'sweep output lacks header or current data'))
        return Result(fails=fails, nontrivial=nt, labels=labels)
    if r == 23:
        labels.append('outcome-diagnostic')
        lines = [l for l in (out + err).split('\n') if l.strip()]
        if REPORT_MARK in out:
            fails.append(('diagnostic-with-report', 'return value 23 but a report was printed'))
        elif len(lines) != 1:
            fails.append(('diagnostic-lines:%d' % min(len(lines), 3), 'return value 23 with %d non-empty lines: %r' % (len(lines), lines[:3])))
        return Result(fails=fails, nontrivial=nt, labels=labels)
    return Result(fails=[('return-value', 'main returned %r' % (r,))], nontrivial=nt, labels=labels)


def enumerate_part(tier, seed, nproc, deadline):
    """thorough tier only: coverage-guided campaign (atheris / libFuzzer over the instrumented package) on the same
    grammar, one process per core, at most 40 % of the remaining wall clock.  See pv/fuzz_c20.py."""
    import sys
    import json
    import time
    import random
    import subprocess
    import collections
    st_ = {'evaluations': 0, 'nt': [], 'labels': {}, 'skipped': {}, 'samples': [], 'truncated': False,
           'error': None, 'fails': {}}
    if tier != 'thorough' or os.environ.get('PV_NO_FUZZ') == '1':
        return st_, None
    try:
        import atheris  # noqa: F401
    except Exception as e:                       # tool not installed: say so in the evidence, do not fail
        return st_, {'fuzz_campaign': 'skipped: atheris not importable (%s)' % e}
    secs = max(20.0, 0.4 * (deadline - time.time()))
    root = tempfile.mkdtemp(prefix='pv-c20-fuzz-')
    procs = []
    rnd = random.Random(seed)                    # corpus seeding only; part of the campaign's pinned configuration
    try:
        for i in range(nproc):
            corpus = os.path.join(root, 'corpus%d' % i)
            os.makedirs(corpus)
            for k in range(8):
                with open(os.path.join(corpus, 'seed%d' % k), 'wb') as f:
                    f.write(bytes(rnd.randrange(256) for _ in range(1500)))
            out = os.path.join(root, 'out%d.jsonl' % i)
            cmd = [sys.executable, '-m', 'pv.fuzz_c20', '--seed', str(seed * 1000 + i + 1), '--runs', '100000000',
                   '--seconds', '%.0f' % secs, '--out', out, '--corpus', corpus]
            procs.append((subprocess.Popen(cmd, stdout=subprocess.DEVNULL, stderr=subprocess.DEVNULL,
                                           cwd=os.path.dirname(os.path.dirname(os.path.dirname(os.path.abspath(__file__))))), out))
        lab = collections.Counter()
        crashed = 0
        for pr, out in procs:
            try:
                rc = pr.wait(timeout=secs + 180)
            except subprocess.TimeoutExpired:
                pr.kill()
                rc = -9
            last = None
            if os.path.exists(out):
                for line in open(out):
                    try:
                        d = json.loads(line)
                    except ValueError:
                        continue
                    if 'fail' in d:
                        sig = d['fail']
                        size = len(json.dumps(d['case']))
                        cur = st_['fails'].get(sig)
                        if cur is None or size < cur['size']:
                            st_['fails'][sig] = {'size': size, 'case': d['case'], 'detail': d['detail'], 'count': cur['count'] if cur else 0}
                    else:
                        last = d
            if last is None or not last.get('done'):
                # the process died (a crash of the interpreter or a libFuzzer timeout is a finding of its own kind,
                # but cannot be attributed to an input here): reported in the evidence
                crashed += 1
            if last:
                st_['evaluations'] += last['n']
                st_['nt'] += last.get('nt_hashes', [])
                for l, c in last['labels'].items():
                    lab['fuzz:' + l] += c
                lab['fuzz-campaign'] += last['n']
                for sig, c in last['counts'].items():
                    if sig in st_['fails']:
                        st_['fails'][sig]['count'] += c
        st_['labels'] = dict(lab)
        info = {'fuzz_campaign': 'atheris %d processes x %.0f s, libFuzzer seeds %d..%d, corpus seeded with 8 x 1500 random bytes '
                                 'per process' % (nproc, secs, seed * 1000 + 1, seed * 1000 + nproc),
                'fuzz_evaluations': st_['evaluations'], 'fuzz_processes_without_final_record': crashed}
        return st_, info
    finally:
        shutil.rmtree(root, ignore_errors=True)
