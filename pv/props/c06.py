"""C06 Results do not depend on how the same conductor structure is described."""
import copy
import math
import numpy as np
from hypothesis import strategies as st

from .. import gen, rules, build, common
from ..runner import Result

ID = 'C06'
RULE = ('Generated: rule-conforming base structures of straight wires (trees, stars, loops, two components; free '
        'space / ideal ground; 1..2 sources on interior, grounded or two-wire-junction pulses; 0..2 lumped loads) and '
        'a variant description: any subset of wires reversed, a drawn permutation of order and tags, straight wires '
        'split at drawn segment boundaries into connected collinear pieces.  Sources and loads are carried over by '
        'position and direction.  Oracle: feed impedances, pulse currents (by position, with direction sign; at '
        'junctions of >= 3 ends the wire-end currents), far field (complex, 6 directions) and near field (3 points) '
        'agree to 5e-4 (conditioning gate).  Non-trivial = the variant reverses a wire at a junction, changes which '
        'wire owns a junction pulse, or splits a wire.')
BUDGET = {'quick': {'examples': 3200, 'wall': 220}, 'thorough': {'examples': 60000, 'wall': 1500}}
ASSUMPTIONS = ['tolerance 5e-4 up to cond 1e3, 5e-7*cond up to 1e5, beyond excluded (statement)',
               'domain of the statement: unjoined wires >= 2 segments apart, one wire end per ground point']
LABEL_FLOORS = {'reversal-at-junction': 0.3, 'split': 0.3, 'reorder': 0.5, 'env-ideal': 0.2, 'grounded-end2-in-variant': 0.05,
                'deg>=3': 0.07}


@st.composite
def case_strategy(draw, big=False):
    if draw(st.integers(0, 6)) == 0:
        # collinear wires of different radii on a dyadic lattice (bit-identical segment vectors across the junctions)
        case = draw(gen.stepped_chain(env_kinds=('free', 'ideal'), nsrc=(0, 0), tag_styles=('auto',), min_seg=2, max_seg=6))
    else:
        case = draw(gen.antenna(env_kinds=('free', 'ideal', 'ideal'), max_wires=4, max_seg=6 if not big else 10,
                                nsrc=(0, 0), tapers=True, taper_prob=0.15, star=2, tag_styles=('auto',)))
    topo, objs = gen.stand_in_topology(case)
    # sources on pulses that exist in every description: interior, grounded, or junctions of exactly two ends
    ok = []
    for p in topo.pulses:
        if p.kind in ('int', 'gnd'):
            ok.append(p.idx)
        elif p.kind == 'junc':
            # degree of the junction
            w = p.owner
            for e in (0, 1):
                if (w, e) in topo.junc_of:
                    j = topo.junctions[topo.junc_of[(w, e)]]
                    endpt = objs[w]['segs'][0 if e == 0 else -1]
                    if np.linalg.norm(endpt - p.pt) < 1e-9 and len(j) == 2:
                        ok.append(p.idx)
    ok = sorted(set(ok))
    ns = draw(st.integers(1, 2))
    idx = draw(st.lists(st.sampled_from(ok), min_size=1, max_size=min(ns, len(ok)), unique=True))
    case['sources'] = [{'pulse': i, 'v': draw(gen.voltage()), '_idx': i, '_kind': topo.pulses[i].kind} for i in idx]
    lds = []
    for i in range(draw(st.integers(0, 2))):
        l = draw(gen.lumped_load(kinds=('z',)))
        l['attach'] = [draw(st.sampled_from(ok))]
        lds.append(l)
    case['loads'] = lds
    n = len(case['objs'])
    var = {'rev': [draw(st.booleans()) for _ in range(n)], 'splits': [], 'perm': None}
    for o in case['objs']:
        if o['n'] >= 2 and not o.get('taper') and draw(st.booleans()):
            k = draw(st.integers(1, min(3, o['n'] - 1)))
            cuts = sorted(draw(st.lists(st.integers(1, o['n'] - 1), min_size=k, max_size=k, unique=True)))
            var['splits'].append(cuts)
        else:
            var['splits'].append([])
    npieces = sum(len(c) + 1 for c in var['splits'])
    var['perm'] = draw(st.permutations(list(range(npieces))))
    var['piece_rev'] = [draw(st.booleans()) for _ in range(npieces)]
    var['tagperm'] = list(draw(st.permutations(list(range(npieces))))) if draw(st.booleans()) else None
    case['variant'] = var
    lam = gen.C_MHZ_M / case['f']
    case['dirs'] = [[gen.r6(draw(st.floats(1, 85 if case['env']['kind'] != 'free' else 179))), gen.r6(draw(st.floats(0, 360)))] for _ in range(6)]
    case['nearpts'] = [[draw(st.floats(-1, 1)), draw(st.floats(-1, 1)), draw(st.floats(-1, 1))] for _ in range(3)]
    return case


def strategy(tier):
    return case_strategy(big=tier == 'thorough')


def make_variant(case):
    var = case['variant']
    pieces = []
    for o, rev, cuts in zip(case['objs'], var['rev'], var['splits']):
        p1, p2 = np.array(o['p1'], float), np.array(o['p2'], float)
        n = o['n']
        bounds = [0] + list(cuts) + [n]
        for a, b in zip(bounds[:-1], bounds[1:]):
            q1 = p1 + (p2 - p1) * (a / n) if a != 0 else p1
            q2 = p1 + (p2 - p1) * (b / n) if b != n else p2
            pieces.append(dict(type='wire', n=b - a, p1=[float(x) for x in q1], p2=[float(x) for x in q2], r=o['r'],
                               tag=None, taper=o.get('taper') or 0, tmin=o.get('tmin'), tmax=o.get('tmax'),
                               _whole_rev=rev))
    out = []
    for i, pc in enumerate(pieces):
        if pc.pop('_whole_rev') != var['piece_rev'][i]:
            pc['p1'], pc['p2'] = pc['p2'], pc['p1']
            if pc['taper'] in (1, 2):
                pc['taper'] = 3 - pc['taper']
        out.append(pc)
    out = [out[i] for i in var['perm']]
    if var.get('tagperm'):
        for i, pc in enumerate(out):
            pc['tag'] = var['tagperm'][i] + 1
    v = {k: copy.deepcopy(x) for k, x in case.items() if k not in ('variant', 'objs', 'sources', 'loads')}
    v['objs'] = out
    v['sources'] = []
    v['loads'] = []
    return v


def pulse_dir(p):
    d = p.e1 - p.e0
    return d / np.linalg.norm(d)


def find_pulse(topo, pt, tol):
    hits = [p for p in topo.pulses if np.linalg.norm(p.pt - pt) <= tol]
    return hits


def end_table(topo, cur):
    """list of (junction point, unit vector away from the junction along the wire, current flowing from the
    junction into the wire) for every non-grounded wire end that is in a junction of >= 2 ends"""
    from ..ref import topology as rtop
    out = []
    for w, o in enumerate(topo.objs):
        for e in (0, 1):
            if (w, e) in topo.grounded:
                continue
            j = topo.junctions[topo.junc_of[(w, e)]]
            if len(j) < 2:
                continue
            s = o['segs']
            pt = s[0] if e == 0 else s[-1]
            away = (s[1] - s[0]) if e == 0 else (s[-2] - s[-1])
            away = away / np.linalg.norm(away)
            i, cnt = rtop.end_current(topo, cur, w, e)
            out.append((pt, away, i if e == 0 else -i, len(j)))
    return out


def physical_unconnected(topo):
    """pulse x pulse matrix: True where the owning objects are neither joined directly nor through a
    common neighbour - computed from the reference junctions (order independent)"""
    n = len(topo.objs)
    adj = np.eye(n, dtype=bool)
    for j in topo.junctions:
        for (a, _) in j:
            for (b, _) in j:
                adj[a, b] = True
    adj2 = (adj.astype(int) @ adj.astype(int)) > 0
    own = [p.owner for p in topo.pulses]
    return np.array([[not adj2[a, b] for b in own] for a in own])


def near_points(case, t0):
    """up to 3 observation points at least 1.5 segment lengths from every conductor"""
    segs = np.concatenate([o['segs'] for o in t0.objs])
    cen = segs.mean(0)
    ext = np.linalg.norm(segs - cen, axis=1).max()
    maxseg = max(np.linalg.norm(np.diff(o['segs'], axis=0), axis=1).max() for o in t0.objs)
    pts = []
    for u in case['nearpts']:
        p = cen + np.array(u) * (ext + 3 * maxseg)
        if case['env']['kind'] != 'free':
            p[2] = abs(p[2])
        dmin = min(rules.seg_seg_dist(p, p, o['segs'][i], o['segs'][i + 1]) for o in t0.objs for i in range(len(o['segs']) - 1))
        if dmin >= 1.5 * maxseg:
            pts.append(p)
    return pts


def agree_with_physical_connectivity(base, var, s_idx0, s_idx1, tol, pts=()):
    """classification only: recompute both descriptions with the exact-kernel eligibility taken from
    the physical connectivity instead of the program's owner-dependent bookkeeping"""
    zs = []
    ffs = []
    nfs = {}
    A = build.mm.Angle
    for c_ in (base, var):
        m = build.model(c_)
        t = build.ref_topology(c_, m)
        m.pulses._matrix_geo_unconnected = physical_unconnected(t)
        m.compute()
        zs.append([x.impedance for x in m.sources])
        # the far field in a few directions is a functional of all currents
        ff = []
        if common.net_power_ok(m):
            for th, ph in ((20.0, 10.0), (60.0, 100.0), (85.0, 200.0), (40.0, 300.0)):
                m.compute_far_field(A(th, 0, 1), A(ph, 0, 1))
                ff += [complex(np.ravel(m.far_field.e_theta)[0]), complex(np.ravel(m.far_field.e_phi)[0])]
        # ... and the near field at the points of the case
        for p in pts:
            m.compute_near_field(p, [1, 1, 1], [1, 1, 1])
            nfs.setdefault(id(c_), []).append((np.array(m.e_field[0]), np.array(m.h_field[0])))
        ffs.append(np.array(ff))
    ok = all(abs(a - b) <= tol * abs(a) for a, b in zip(*zs))
    if ok and pts:
        for (ea, ha), (eb, hb) in zip(nfs[id(base)], nfs[id(var)]):
            if np.linalg.norm(ea - eb) > 3 * tol * np.linalg.norm(ea) or np.linalg.norm(ha - hb) > 3 * tol * np.linalg.norm(ha):
                ok = False
    if ok and len(ffs[0]) and len(ffs[0]) == len(ffs[1]):
        ok = np.abs(ffs[0] - ffs[1]).max() <= tol * np.abs(ffs[0]).max()
    return ok


def check(case):
    why = rules.check(case)
    if why:
        return Result(skipped=why)
    labels = common.base_labels(case)
    base = {k: copy.deepcopy(v) for k, v in case.items() if k not in ('variant', 'dirs', 'nearpts')}
    try:
        m0 = common.solved(base)
    except build.Rejected as e:
        return Result(skipped='rejected: ' + str(e)[:50])
    t0 = build.ref_topology(base, m0)
    why = common.junction_ratio_violation(t0)
    if why:
        return Result(skipped=why)
    var = make_variant(case)
    # the domain of the statement is a property of the DESCRIPTION: after a split, pieces that were one wire are only
    # joined through one another, so wires that were neighbours of neighbours may no longer be
    why = rules.check(var)
    if why:
        return Result(skipped='variant: ' + why)
    tv, _ = gen.stand_in_topology(var)
    t0s, _ = gen.stand_in_topology(base)     # same division rule on both sides for the mapping of indices
    tol_pos = 10 * max(t0.tol, tv.tol)
    # carry sources and loads over by position and direction
    for s in case['sources']:
        p = t0s.pulses[s['_idx']]
        hits = find_pulse(tv, p.pt, tol_pos)
        if len(hits) != 1:
            return Result(fails=[('harness:source-mapping', '%d pulses at the source position in the variant' % len(hits))])
        q = hits[0]
        sgn = 1.0 if pulse_dir(p) @ pulse_dir(q) > 0 else -1.0
        var['sources'].append({'pulse': q.idx, 'v': [sgn * s['v'][0], sgn * s['v'][1]], '_idx': q.idx})
    for l in case['loads']:
        p = t0s.pulses[l['attach'][0]]
        hits = find_pulse(tv, p.pt, tol_pos)
        if len(hits) != 1:
            return Result(fails=[('harness:load-mapping', '%d pulses at the load position in the variant' % len(hits))])
        var['loads'].append(dict(l, attach=[hits[0].idx]))
    try:
        m1 = common.solved(var)
    except build.Rejected as e:
        return Result(fails=[('variant-rejected', str(e)[:200])], labels=labels)
    tv = build.ref_topology(var, m1)
    c = max(common.cond(m0), common.cond(m1))
    tol = common.gate(c)
    if tol is None:
        return Result(skipped='condition number above 1e5')
    V = case['variant']
    nt = False
    if any(len(c_) for c_ in V['splits']):
        labels.append('split')
        nt = True
    if list(V['perm']) != sorted(V['perm']) or V.get('tagperm'):
        labels.append('reorder')
    if V.get('tagperm'):
        labels.append('explicit-permuted-tags')
    if any(len(j) >= 3 for j in t0.junctions):
        labels.append('deg>=3')
    # reversal at a junction / ownership change
    own0 = sorted((tuple(np.round(p.pt, 9)), tuple(np.round(np.abs(pulse_dir(p)), 6))) for p in t0.pulses if p.kind == 'junc')
    for w, o in enumerate(case['objs']):
        if V['rev'][w] and any((w, e) in t0.junc_of and len(t0.junctions[t0.junc_of[(w, e)]]) >= 2 for e in (0, 1)):
            labels.append('reversal-at-junction')
            nt = True
    if any((w, 1) in tv.grounded for w in range(len(tv.objs))):
        labels.append('grounded-end2-in-variant')
    if list(V['perm']) != sorted(V['perm']) and any(len(j) >= 2 for j in t0.junctions):
        nt = True
    fails = []
    I0, I1 = np.array(m0.current), np.array(m1.current)
    if len(I0) != len(t0.pulses) or len(I1) != len(tv.pulses):
        return Result(fails=[('structure:pulse-count', 'the program has %d / %d pulses for base / variant, the end points of the '
                              'two descriptions give %d / %d' % (len(I0), len(I1), len(t0.pulses), len(tv.pulses)))],
                      nontrivial=True, labels=sorted(set(labels)))
    imax = np.abs(I0).max()
    # classification of any difference (computed once, on the first failure): known finding F-C06
    _cls = {}

    def suffix_():
        if 'v' not in _cls:
            _cls['v'] = ''
            try:
                if agree_with_physical_connectivity(base, var, None, None, tol, near_points(case, t0)):
                    _cls['v'] = ':exact-kernel-eligibility-depends-on-junction-owner'
            except Exception:
                pass
            if not _cls['v']:
                # classification only (finding F-C06c): at a junction sharper than 50 degrees the pulses of one wire
                # lie within 1.1 segment lengths of the other wire's segments, where the inherited criterion
                # t <= 1.1 applies the exact (self-term) kernel to wires thicker than 1e-4 wavelength - although
                # the observation point is not on that segment; which halves this hits depends on the direction
                # and order of the wires.  Attributed to this only if the sharpest junction is below 50 degrees,
                # some wire is thick, and BOTH descriptions agree in every compared channel once all radii are thin
                try:
                    amin = 180.0
                    for j_ in t0.junctions:
                        for x_ in range(len(j_)):
                            for y_ in range(x_ + 1, len(j_)):
                                da_ = [(t0.objs[w_]['segs'][1] - t0.objs[w_]['segs'][0]) if e_ == 0 else
                                       (t0.objs[w_]['segs'][-2] - t0.objs[w_]['segs'][-1]) for (w_, e_) in (j_[x_], j_[y_])]
                                cs_ = float(da_[0] @ da_[1] / np.linalg.norm(da_[0]) / np.linalg.norm(da_[1]))
                                amin = min(amin, np.degrees(np.arccos(max(-1.0, min(1.0, cs_)))))
                    srm_ = 1e-4 * 299.8 / case['f']
                    if amin < 50.0 and any(o_['r'] > srm_ for o_ in t0.objs):
                        zz = []
                        for c_ in (base, var):
                            ct = copy.deepcopy(c_)
                            for o_ in ct['objs']:
                                o_['r'] = min(o_['r'], 0.5 * srm_)
                            mt = common.solved(ct)
                            zz.append((np.array([x.impedance for x in mt.sources]), mt))
                        okz = np.abs(zz[0][0] - zz[1][0]).max() <= tol * np.abs(zz[0][0]).max()
                        pts_ = near_points(case, t0)
                        for p_ in pts_:
                            ff_ = []
                            for _, mt in zz:
                                mt.compute_near_field(p_, [1, 1, 1], [1, 1, 1])
                                ff_.append((np.array(mt.e_field[0]), np.array(mt.h_field[0])))
                            if np.linalg.norm(ff_[0][0] - ff_[1][0]) > 3 * tol * np.linalg.norm(ff_[0][0]) + 1e-300:
                                okz = False
                        if okz:
                            _cls['v'] = ':acute-junction-of-thick-wires:exact-kernel-criterion'
                except Exception:
                    pass
        return _cls['v']

    # impedances
    for a, b in zip(m0.sources, m1.sources):
        if abs(a.impedance - b.impedance) > tol * common.port_amp(m0, a) * abs(a.impedance):
            fails.append(('impedance' + suffix_(), 'feed impedance %r in the base description, %r in the variant (cond %.3g)' % (a.impedance, b.impedance, c)))
            break
    # currents by position
    worst = 0.0
    for p in t0.pulses:
        deg3 = False
        if p.kind == 'junc':
            w = p.owner
            for e in (0, 1):
                if (w, e) in t0.junc_of and np.linalg.norm(t0.objs[w]['segs'][0 if e == 0 else -1] - p.pt) < 1e-9:
                    deg3 = len(t0.junctions[t0.junc_of[(w, e)]]) >= 3
        if deg3:
            continue
        hits = find_pulse(tv, p.pt, tol_pos)
        if len(hits) != 1:
            fails.append(('harness:pulse-mapping', 'pulse %d: %d pulses at its position in the variant' % (p.idx + 1, len(hits))))
            break
        q = hits[0]
        sgn = 1.0 if pulse_dir(p) @ pulse_dir(q) > 0 else -1.0
        worst = max(worst, abs(I0[p.idx] - sgn * I1[q.idx]) / imax)
    if worst > tol:
        fails.append(('currents' + suffix_(), 'pulse currents differ by %.3g of the largest current (tol %.2g, cond %.3g)' % (worst, tol, c)))
    # wire-end currents at junctions
    e0, e1 = end_table(t0, I0), end_table(tv, I1)
    worst = 0.0
    for pt, away, i, deg in e0:
        if deg < 3:
            continue
        m_ = [x for x in e1 if np.linalg.norm(x[0] - pt) <= tol_pos and x[1] @ away > 0.999]
        if len(m_) != 1:
            fails.append(('harness:end-mapping', 'wire end at %s: %d matches in the variant' % (list(pt), len(m_))))
            break
        worst = max(worst, abs(i - m_[0][2]) / imax)
    if worst > tol:
        fails.append(('wire-end-currents' + suffix_(), 'wire-end currents at a junction of >= 3 ends differ by %.3g (tol %.2g)' % (worst, tol)))
    # far field, complex
    if common.net_power_ok(m0) and common.net_power_ok(m1):
        A = build.mm.Angle
        f0, f1 = [], []
        for th, ph in case['dirs']:
            for m_, f_ in ((m0, f0), (m1, f1)):
                m_.compute_far_field(A(th, 0, 1), A(ph, 0, 1))
                f_.append([complex(np.ravel(m_.far_field.e_theta)[0]), complex(np.ravel(m_.far_field.e_phi)[0])])
        f0, f1 = np.array(f0), np.array(f1)
        err = np.abs(f0 - f1).max() / np.abs(f0).max()
        if err > tol:
            fails.append(('far-field' + suffix_(), 'far field differs by %.3g of its maximum (tol %.2g)' % (err, tol)))
        # near field at 3 points at least 1.5 segment lengths from every conductor
        pts = near_points(case, t0)
        for p in pts:
            m0.compute_near_field(p, [1, 1, 1], [1, 1, 1])
            m1.compute_near_field(p, [1, 1, 1], [1, 1, 1])
            ea, eb = np.array(m0.e_field[0]), np.array(m1.e_field[0])
            ha, hb = np.array(m0.h_field[0]), np.array(m1.h_field[0])
            # (a field that vanishes by symmetry - H on the axis of a straight wire - is judged on the scale of the other)
            de = np.linalg.norm(ea - eb) / (np.linalg.norm(ea) + 1e-6 * 376.7 * np.linalg.norm(ha) + 1e-300)
            dh = np.linalg.norm(ha - hb) / (np.linalg.norm(ha) + 1e-6 * np.linalg.norm(ea) / 376.7 + 1e-300)
            # the program differentiates the potentials numerically over 0.001 wavelength, which amplifies the
            # (allowed) differences of the currents: three times the tolerance of the currents
            if de > 3 * tol or dh > 3 * tol:
                fails.append(('near-field' + suffix_(), 'near field at %s differs: E %.3g, H %.3g (tol %.2g)' % ([float(x) for x in p], de, dh, tol)))
                break
    return Result(fails=fails, nontrivial=nt, labels=sorted(set(labels)))
