"""C04 Near field equals the field of the solved currents and merges into the far field."""
import math
import numpy as np
from hypothesis import strategies as st

from .. import gen, rules, build, common
from ..runner import Result
from ..ref import fields as rf

ID = 'C04'
RULE = ('Generated: rule-conforming antennas (straight, bent, branched; different radii and segment lengths at '
        'junctions; wires joined end 1 to end 1 and end 2 to end 2; wires grounded at either end; tapered wires; '
        'free space and ideal ground; 1..2 sources) and observation points in three shells: 1..3 segment lengths '
        'from the nearest conductor, 0.1..1 wavelength, and 200..2000 max(extent, wavelength); drawn power level.  '
        'Oracle A: E and H of the solved pulse currents and their charges (and images) by Gauss-Legendre / adaptive '
        'quadrature with the analytic kernel gradient, 1 % (vector norm).  Oracle B (far shell): |E|/|H| = 376.7 '
        'ohm, radial parts <= 1 %, E equals the reported far field of the same direction, power and distance.  '
        'Non-trivial = a junction pulse with non-parallel or unequal legs, a wire grounded at end 2, or an image.')
BUDGET = {'quick': {'examples': 500, 'wall': 220}, 'thorough': {'examples': 15000, 'wall': 1500}}
ASSUMPTIONS = ['points closer than one segment length to a conductor (or its image) are excluded by construction',
               'reference uses 1/(4 pi omega eps0) exactly (the program\'s constant is 0.14 % larger)']
LABEL_FLOORS = {'env-ideal': 0.2, 'bent-junction': 0.2, 'unequal-legs': 0.1, 'grounded-end2': 0.02, 'shell-near': 0.25,
                'shell-far': 0.25, 'same-end-junction': 0.2}


@st.composite
def case_strategy(draw, big=False):
    if draw(st.integers(0, 4)) == 0:
        # arcs and helices: every segment of ONE object has its own direction
        case = draw(gen.curve_antenna(env_kinds=('free', 'ideal'), nsrc=(1, 2)))
    else:
        case = draw(gen.antenna(env_kinds=('free', 'ideal'), max_wires=4, max_seg=6 if not big else 10, nsrc=(1, 2),
                                taper_prob=0.1, star=1))
    pts = []
    for i in range(3):
        shell = draw(st.sampled_from(['near', 'mid', 'far']))
        u = np.array([draw(st.floats(-1, 1)), draw(st.floats(-1, 1)), draw(st.floats(-1, 1))])
        if np.linalg.norm(u) < 0.1:
            u = np.array([0.3, 0.5, 0.8])
        pts.append({'shell': shell, 'u': [float(x) for x in u / np.linalg.norm(u)], 'a': draw(st.floats(0, 1)),
                    'b': draw(st.floats(0, 1))})
    case['pts'] = pts
    case['nfpwr'] = gen.r6(draw(gen.logf(1e-3, 1e5))) if draw(st.booleans()) else None
    case['timing'] = draw(st.integers(0, 4)) == 0      # time measurement must not influence any number
    return case


def strategy(tier):
    return case_strategy(big=tier == 'thorough')


def dist_to_structure(p, topo, ground):
    best = 1e300
    for o in topo.objs:
        s = o['segs']
        for i in range(len(s) - 1):
            best = min(best, rules.seg_seg_dist(p, p, s[i], s[i + 1]))
            if ground:
                best = min(best, rules.seg_seg_dist(p, p, s[i] * rf.MIRROR, s[i + 1] * rf.MIRROR))
    return best


def place(spec, topo, lam, ground):
    allp = np.concatenate([o['segs'] for o in topo.objs])
    cen = allp.mean(0)
    ext = max(np.linalg.norm(allp - cen, axis=1).max(), 1e-9)
    maxseg = max(max(p.l0, p.l1) for p in topo.pulses)
    u = np.array(spec['u'])
    if spec['shell'] == 'near':
        # start from a point on the structure and move away until the distance is 1..3 segment lengths
        o = topo.objs[int(spec['a'] * len(topo.objs)) % len(topo.objs)]
        s = o['segs']
        base = s[int(spec['b'] * len(s)) % len(s)]
        want = (1.05 + 1.95 * spec['a']) * maxseg
        p = base + u * want
        for _ in range(40):
            if ground and p[2] < 0:
                p[2] = -p[2]
            d = dist_to_structure(p, topo, ground)
            if d >= 1.02 * maxseg:
                break
            p = p + u * (1.03 * maxseg - d + 0.05 * maxseg)
        return p
    if spec['shell'] == 'mid':
        p = cen + u * (ext + (0.1 + 0.9 * spec['a']) * lam)
    else:
        p = cen * 0 + u * (200 + 1800 * spec['a']) * max(2 * ext, lam)
    if ground and p[2] < 0:
        p[2] = -p[2]
    return p


def check(case):
    why = rules.check(case)
    if why:
        return Result(skipped=why)
    labels = common.base_labels(case)
    if any(o['type'] != 'wire' for o in case['objs']):
        labels.append('curve')
    try:
        m = common.solved(case)
    except build.Rejected as e:
        return Result(skipped='rejected: ' + str(e)[:50])
    if not m.power > 0:
        return Result(skipped='sources deliver no net power')
    topo = build.ref_topology(case, m)
    why = common.junction_ratio_violation(topo)
    if why:
        return Result(skipped=why)
    ground = build.has_ground(case)
    lam = 299.8 / case['f']
    k = 2 * math.pi / lam
    srm = 1e-4 * lam
    I = np.array(m.current)
    nt = ground
    for p in topo.pulses:
        if p.kind == 'junc':
            c = (p.pt - p.e0) @ (p.e1 - p.pt) / (p.l0 * p.l1)
            if c < 0.999:
                labels.append('bent-junction')
                nt = True
            if abs(p.l0 - p.l1) > 1e-6 * p.l0 or abs(p.r0 - p.r1) > 1e-9 * p.r0:
                labels.append('unequal-legs')
                nt = True
            if p.legs[0][2] != p.legs[1][2]:
                labels.append('same-end-junction')
    if any(e == 1 for (_, e) in topo.grounded):
        labels.append('grounded-end2')
        nt = True
    pw = case['nfpwr']
    P = pw if pw is not None else m.power
    fac = math.sqrt(P / m.power)
    fails = []
    maxseg = max(max(p.l0, p.l1) for p in topo.pulses)
    for n_, spec in enumerate(case['pts']):
        obs = place(spec, topo, lam, ground)
        if dist_to_structure(obs, topo, ground) < 1.0 * maxseg:
            continue
        labels.append('shell-' + spec['shell'])
        kw = {} if pw is None else {'pwr': pw}
        m.compute_near_field([float(x) for x in obs], [1.0, 1.0, 1.0], [1, 1, 1], **kw)
        e = np.array(m.e_field[0])
        h = np.array(m.h_field[0])
        Er, Hr, sE, sH = rf.near_field(topo, I, k, obs, ground, srm, adaptive=(n_ == 0 and spec['shell'] != 'far'), scales=True)
        Er, Hr, sE, sH = Er * fac, Hr * fac, sE * fac, sH * fac
        # 1 % of the field; where the contributions of the individual pulses cancel (partial nulls of the near field)
        # the per-pulse approximation errors of the program (a few 1e-4 each) do not cancel with them: allow 5e-4 of
        # the summed magnitudes of the contributions in addition
        # (a field that vanishes identically by symmetry - H on the axis of a straight wire - is compared with
        # the other field as scale)
        de = np.linalg.norm(e - Er) / (np.linalg.norm(Er) + 0.05 * sE + 1e-6 * 376.7 * np.linalg.norm(Hr) + 1e-300)
        dh = np.linalg.norm(h - Hr) / (np.linalg.norm(Hr) + 0.05 * sH + 1e-6 * np.linalg.norm(Er) / 376.7 + 1e-300)
        # the program differentiates the potentials numerically over 0.001 wavelength; closer than 8 such
        # steps to a conductor the truncation error of that step alone exceeds the 1 % of the statement
        dmin = dist_to_structure(obs, topo, ground)
        # (central differences of a field that falls as 1/d^2..1/d^3 are off by about (step / d)^2: 1.6 % at 8 steps,
        # 1.1 % at 9 steps - observed -, 0.7 % at 12 steps)
        h_fd = 0.001 * lam
        # (between 12 and 25 steps the excess follows the second-order law: a point 15.4 steps from a one-segment wire
        # was off by 1.2 %; with the step halved / quartered in a scratch copy of the routine the program's value
        # moved to within 3e-4 of the reference - allowance there: 1 % + 4 (step / d)^2)
        cap_fd = 0.05 if dmin < 8 * h_fd else (0.02 if dmin < 12 * h_fd else 0.01 + 4 * (h_fd / dmin) ** 2)
        fd = ':closer-than-25-finite-difference-steps' if (dmin < 25 * h_fd and max(de, dh) <= cap_fd) else ''
        if de > 0.01:
            fails.append(('E-vs-currents:' + spec['shell'] + fd, 'E at %s: program %s, field of the solved currents %s (%.3g)'
                          % ([float(x) for x in obs], e.tolist(), Er.tolist(), de)))
        if dh > 0.01:
            fails.append(('H-vs-currents:' + spec['shell'] + fd, 'H at %s: program %s, field of the solved currents %s (%.3g)'
                          % ([float(x) for x in obs], h.tolist(), Hr.tolist(), dh)))
        if spec['shell'] == 'far':
            r = np.linalg.norm(obs)
            rh = obs / r
            th = math.degrees(math.acos(max(-1, min(1, rh[2]))))
            ph = math.degrees(math.atan2(rh[1], rh[0]))
            A = build.mm.Angle
            # the direction is asked for as one entry of a 2 x 3 table (as a user would), at a position that
            # depends on the direction; the field arrays are documented as indexed (phi, theta)
            it_ = int(th * 7) % 2
            ip_ = int(abs(ph) * 7) % 3
            dth = 7.0
            if th - it_ * dth < 0:
                it_ = 0
            if ground and th + (1 - it_) * dth > 89.0:
                it_ = 1
                if th - dth < 0:
                    dth = th / 2.0
            m.compute_far_field(A(th - it_ * dth, dth, 2), A(ph - ip_ * 25.0, 25.0, 3), pwr=P, dist=r)
            ffe, ffp = np.array(m.far_field.e_theta), np.array(m.far_field.e_phi)
            if ffe.shape != (3, 2) or ffp.shape != (3, 2):
                fails.append(('far-field:array-shapes', 'e_theta %s, e_phi %s for 2 zenith x 3 azimuth angles' % (ffe.shape, ffp.shape)))
                break
            et = complex(ffe[ip_, it_])
            ep = complex(ffp[ip_, it_])
            _, that, phat = rf.sph(th, ph)
            Eff = (et * that + ep * phat) * np.exp(-1j * k * r)
            allp = np.concatenate([o['segs'] for o in topo.objs])
            D = np.linalg.norm(allp, axis=1).max()
            # pattern maximum at this distance: in a null the radial 1/r^2 terms dominate the (tiny) field
            m.compute_far_field(A(0, 15, 7 if ground else 13), A(0, 30, 12), pwr=P, dist=r)
            emax = max(np.abs(np.array(m.far_field.e_theta)).max(), np.abs(np.array(m.far_field.e_phi)).max())
            # the staggered pulse / charge discretisation leaves a radial 1/r residual of the order
            # (k * segment)^2 / 12 of the pattern maximum (measured: 0.3 % for lambda/20 segments)
            # a pulse with unequal halves carries its current moment (l1 - l0) / 4 away from the point its charges
            # are balanced about: first-order radial residual k |l1 - l0| / 4 of that pulse's contribution
            uneq = max([abs(p.l1 - p.l0) for p in topo.pulses if p.kind != 'gnd'] + [0.0])
            resid = (k * maxseg) ** 2 / 12.0 + k * uneq / 4.0 + 3.0 / (k * r)
            in_null = np.linalg.norm(Eff) < 0.1 * emax
            if in_null:
                labels.append('far-point-in-null')
            else:
                e_t = e - (e @ rh) * rh
                h_t = h - (h @ rh) * rh
                ratio = np.linalg.norm(e_t) / np.linalg.norm(h_t)
                if abs(ratio - 376.7) > (0.01 + 3 * D / r) * 376.7:
                    fails.append(('far-shell:wave-impedance', '|E|/|H| = %.5g at %.3g wavelengths' % (ratio, r / lam)))
                slack = 0.01 + 3 * D / r + resid * emax / np.linalg.norm(e)
                if abs(e @ rh) > slack * np.linalg.norm(e) or abs(h @ rh) > slack * np.linalg.norm(h):
                    fails.append(('far-shell:radial-component', 'radial fractions E %.3g H %.3g at %.3g wavelengths'
                                  % (abs(e @ rh) / np.linalg.norm(e), abs(h @ rh) / np.linalg.norm(h), r / lam)))
            d = np.linalg.norm(e - Eff)
            # 3 D / r: amplitude and direction change over the extent D; k D^2 / 2r: Fresnel phase term
            if d > (0.01 + 3 * D / r + 1.5 * k * D * D / (2 * r) + resid) * max(emax, np.linalg.norm(Eff)):
                sig = 'far-shell:merges-into-far-field'
                # classification: does the exact straight-segment radiation integral of the same currents
                # (instead of MININEC's moment-at-the-pulse-point rule) agree with the near field?
                a_, b_ = rf.far_field(topo, I, k, th, ph, ground, 'exact')
                Eex = (a_ * that + b_ * phat) * fac / r * np.exp(-1j * k * r)
                if np.linalg.norm(e - Eex) <= (0.01 + 3 * D / r + 1.5 * k * D * D / (2 * r) + resid) * max(emax, np.linalg.norm(Eex)) \
                        and d <= 0.15 * emax:
                    sig += ':point-rule-vs-exact-integral'
                fails.append((sig, 'near field %s vs far field %s at %.3g wavelengths (%.3g of the pattern maximum)'
                              % (e.tolist(), Eff.tolist(), r / lam, d / emax)))
    # ---- the same values when the points are asked for as a table: row i of a 2 x 3 x 2 request carries the field
    # at point i (each row compared with a single-point request at the coordinates the program lists for it; the
    # single-point values are what the reference was compared with above)
    anchor = None
    for spec in case['pts']:
        if spec['shell'] != 'far':
            o_ = place(spec, topo, lam, ground)
            if dist_to_structure(o_, topo, ground) >= maxseg:
                anchor = o_
                break
    if anchor is not None and not fails:
        kw = {} if pw is None else {'pwr': pw}
        inc = [0.7 * maxseg, 1.1 * maxseg, 0.9 * maxseg]
        m.compute_near_field([float(x) for x in anchor], inc, [2, 3, 2], **kw)
        co = np.array(m.near_field_coord, float)
        Eg, Hg = np.array(m.e_field), np.array(m.h_field)
        if co.shape != (3, 12) or Eg.shape != (12, 3) or Hg.shape != (12, 3):
            fails.append(('near-table:shapes', 'coordinates %s, E %s, H %s for a 2 x 3 x 2 request' % (co.shape, Eg.shape, Hg.shape)))
        else:
            labels.append('near-table')
            se, sh_ = np.abs(Eg).max(), np.abs(Hg).max()
            for i in range(12):
                pt = co[:, i]
                if ground and pt[2] < 0:
                    continue
                m.compute_near_field([float(x) for x in pt], [1.0, 1.0, 1.0], [1, 1, 1], **kw)
                e1, h1 = np.array(m.e_field[0]), np.array(m.h_field[0])
                if np.abs(e1 - Eg[i]).max() > 1e-9 * se or np.abs(h1 - Hg[i]).max() > 1e-9 * sh_:
                    fails.append(('near-table:row-vs-point', 'row %d of the table (point %s) carries E %s, H %s; asked for alone '
                                  'the point gives E %s, H %s' % (i + 1, pt.tolist(), Eg[i].tolist(), Hg[i].tolist(), e1.tolist(), h1.tolist())))
                    break
    return Result(fails=fails, nontrivial=bool(nt), labels=sorted(set(labels)))
