"""C05 Rigid-motion and electromagnetic-scaling invariance."""
import copy
import math
import numpy as np
from hypothesis import strategies as st

from .. import gen, rules, build, common
from ..runner import Result
from ..ref import geometry as rgeo

ID = 'C05'
RULE = ('Generated: rule-conforming base antenna (free space or ideal ground; straight and tapered wires, arcs, '
        'helices) with 1..2 sources and 0..2 lumped loads; a list of 1..5 whole-structure rotations (1..3 non-zero '
        'angles) and translations (up to 1000 wavelengths) with distinct and with equal sort keys, optionally a scale 0.01..100 '
        'with the frequency divided by it (over ground: z-rotations and horizontal shifts only); optionally '
        'additional per-tag transformations.  Oracle (a): impedances and currents of the moved/scaled antenna '
        'equal those of the base (5e-4, conditioning gate), total gain equal at rigidly moved directions (0.01 dB). '
        'Oracle (b): the same transformations written into the coordinates by the reference implementation give '
        'the same segment end points (1e-9) and impedances as the options.  Non-trivial = >= 2 non-commuting '
        'transformations, a per-tag transformation, or scale != 1.')
BUDGET = {'quick': {'examples': 2400, 'wall': 220}, 'thorough': {'examples': 30000, 'wall': 1500}}
ASSUMPTIONS = ['tolerance 5e-4 up to cond 1e3, 5e-7*cond up to 1e5, beyond excluded (statement)',
               'gain compared where it is within 40 dB of the maximum']
LABEL_FLOORS = {'multi-angle-rotation': 0.15, 'xforms>=4': 0.08, 'scale': 0.2, 'per-tag': 0.15, 'env-ideal': 0.2,
                'translate>=100lambda': 0.05}


@st.composite
def case_strategy(draw, big=False):
    if draw(st.integers(0, 4)) == 0:
        case = draw(gen.curve_antenna(env_kinds=('free', 'ideal'), nsrc=(1, 2)))
        # the generator's own placement transformations stay part of the base
    else:
        case = draw(gen.antenna(env_kinds=('free', 'free', 'ideal'), max_wires=4, max_seg=6 if not big else 10,
                                nsrc=(1, 2), taper_prob=0.1))
    lam = gen.C_MHZ_M / case['f']
    ground = case['env']['kind'] != 'free'
    # an insulator: one wire end of a junction is pulled back along its own wire by 2.5 .. 30 matching tolerances, so
    # that two ends are close but NOT joined - and must stay so wherever the antenna is moved to
    if all(o['type'] == 'wire' for o in case['objs']) and not case['xforms'] and not case['scales'] and draw(st.integers(0, 4)) == 0:
        pts = {(i, e): np.array(o[e], dtype=float) for i, o in enumerate(case['objs']) for e in ('p1', 'p2')}
        cands = [k for k in sorted(pts) if not (ground and pts[k][2] == 0.0) and
                 any(k2 != k and np.linalg.norm(pts[k] - pts[k2]) < 1e-9 * lam for k2 in pts)]
        if cands:
            i, e = draw(st.sampled_from(cands))
            o = case['objs'][i]
            d = pts[(i, 'p2' if e == 'p1' else 'p1')] - pts[(i, e)]
            minseg = min(np.linalg.norm(pts[(j, 'p2')] - pts[(j, 'p1')]) / oo['n'] for j, oo in enumerate(case['objs']))
            gap = draw(st.floats(2.5e-3, 3e-2)) * minseg
            o[e] = [float(x) for x in pts[(i, e)] + d / np.linalg.norm(d) * gap]
            case['gap'] = True
    topo, objs = gen.stand_in_topology(case)
    lds = []
    for i in range(draw(st.integers(0, 2))):
        l = draw(gen.lumped_load(kinds=('z',)))
        l['attach'] = [draw(st.integers(0, len(topo.pulses) - 1))]
        lds.append(l)
    case['loads'] = lds
    base_keys = [x['key'] for x in case['xforms']]
    k0 = (max(base_keys) if base_keys else 0) + 1
    n = draw(st.sampled_from([1, 1, 2, 2, 3, 4, 5]))
    # equal keys are allowed (a third of the cases draws from three values only): such transformations are applied
    # in the order of the option list, rotations first
    keys = draw(st.lists(st.integers(0, 30) if draw(st.integers(0, 2)) else st.integers(0, 2), min_size=n, max_size=n,
                         unique=False))
    motion = []
    for k in keys:
        kind = draw(st.sampled_from(['rotate', 'rotate', 'translate']))
        if kind == 'rotate':
            if ground:
                v = [0.0, 0.0, gen.r6(draw(st.floats(-360, 360)))]
            else:
                nz = draw(st.sampled_from([1, 2, 3, 3]))
                axes = draw(st.permutations([0, 1, 2]))[:nz]
                v = [0.0, 0.0, 0.0]
                for a in axes:
                    v[a] = gen.r6(draw(st.floats(-360, 360)))
        else:
            mag = draw(st.sampled_from([1.0, 10.0, 100.0, 1000.0])) * draw(st.floats(0.1, 1.0)) * lam
            d = np.array([draw(st.floats(-1, 1)), draw(st.floats(-1, 1)), 0.0 if ground else draw(st.floats(-1, 1))])
            if np.linalg.norm(d) < 0.1:
                d = np.array([1.0, 0.0, 0.0])
            d = d / np.linalg.norm(d) * mag
            v = [gen.r6(x) for x in d]
        motion.append({'kind': kind, 'key': float(k0 + k) + draw(st.sampled_from([0.0, 0.5])), 'v': v, 'tag': None})
    case['motion'] = motion
    case['scale'] = gen.r6(draw(gen.logf(0.01, 100))) if draw(st.integers(0, 2)) == 0 else None
    case['scale_split'] = gen.r6(draw(gen.logf(0.1, 10))) if (case['scale'] is not None and draw(st.booleans())) else None
    pt = []
    if draw(st.integers(0, 2)) == 0:
        build.assign_tags(case)
        tagsl = [o['_tag'] for o in case['objs']]
        for i in range(draw(st.integers(1, 2))):
            kind = draw(st.sampled_from(['rotate', 'translate']))
            if kind == 'rotate':
                v = [gen.r6(draw(st.floats(-180, 180))) if (not ground or a == 2) else 0.0 for a in range(3)]
            else:
                v = [gen.r6(draw(st.floats(-2, 2)) * lam), gen.r6(draw(st.floats(-2, 2)) * lam),
                     gen.r6(draw(st.floats(0, 2)) * lam)]
            pt.append({'kind': kind, 'key': float(k0 + 40 + i), 'v': v, 'tag': draw(st.sampled_from(tagsl))})
    case['pertag'] = pt
    # the order of the options on the command line is the user's: tagged before untagged ones or after them (the sort
    # keys decide the order of application)
    case['pertag_first'] = draw(st.booleans())
    case['dirs'] = [[gen.r6(draw(st.floats(1, 85 if ground else 179))), gen.r6(draw(st.floats(0, 360)))] for _ in range(5)]
    return case


def strategy(tier):
    return case_strategy(big=tier == 'thorough')


def gain_at(m, dirs):
    out = []
    A = build.mm.Angle
    for th, ph in dirs:
        m.compute_far_field(A(th, 0, 1), A(ph, 0, 1))
        out.append(np.array(m.far_field.gain).reshape(3))
    return np.array(out)


def field_at(m, dirs):
    """(|E_theta|, |E_phi|, |E|) times distance for the source voltages as given"""
    out = []
    A = build.mm.Angle
    for th, ph in dirs:
        m.compute_far_field(A(th, 0, 1), A(ph, 0, 1))
        a, b = abs(complex(np.ravel(m.far_field.e_theta)[0])), abs(complex(np.ravel(m.far_field.e_phi)[0]))
        out.append([a, b, math.hypot(a, b)])
    return np.array(out)


def unit(th, ph):
    t, p = math.radians(th), math.radians(ph)
    return np.array([math.sin(t) * math.cos(p), math.sin(t) * math.sin(p), math.cos(t)])


def angles(v):
    v = v / np.linalg.norm(v)
    return math.degrees(math.acos(max(-1, min(1, v[2])))), math.degrees(math.atan2(v[1], v[0]))


def total_rotation(motion):
    R = np.eye(3)
    for x in sorted(motion, key=lambda x: x['key']):
        if x['kind'] == 'rotate':
            R = rgeo.rot_matrix(x['v']) @ R
    return R


def written_into_coordinates(case):
    """reference: apply all options to the coordinates (wires only)"""
    alt = copy.deepcopy(case)
    build.assign_tags(alt)
    items = rgeo.transformed(alt)
    by = {it['tag']: it for it in items}
    for o in alt['objs']:
        it = by[o['_tag']]
        o['p1'] = [float(x) for x in it['pts'][0]]
        o['p2'] = [float(x) for x in it['pts'][1]]
        o['r'] = float(it['r'])
        o['tag'] = o['_tag']
    alt['xforms'] = []
    alt['scales'] = []
    return alt


def segpoints(m):
    return [np.array([s.p1 for s in g.segments] + [g.segments[-1].p2]) for g in m.geo]


def check(case):
    # wire ends separated by an insulating gap: the separation rule for unjoined wires is not a precondition of the
    # invariance and is waived for them
    why = rules.check(case, sep=0.0) if case.get('gap') else rules.check(case)
    if why:
        return Result(skipped=why)
    labels = common.base_labels(case)
    if case.get('gap'):
        labels.append('ends-close-but-not-joined')
    motion, scale, pertag = case['motion'], case['scale'], case['pertag']
    lam = gen.C_MHZ_M / case['f']
    nt = False
    if scale is not None:
        labels.append('scale')
        nt = True
        if case.get('scale_split'):
            labels.append('scale-in-two-steps')
    if pertag:
        labels.append('per-tag')
        nt = True
    if len(motion) + len(pertag) >= 4:
        labels.append('xforms>=4')
    if any(x['kind'] == 'rotate' and sum(1 for a in x['v'] if a) >= 2 for x in motion):
        labels.append('multi-angle-rotation')
        nt = True
    if len(motion) >= 2 and any(x['kind'] == 'rotate' for x in motion):
        nt = True
    if any(x['kind'] == 'translate' and np.linalg.norm(x['v']) >= 100 * lam for x in motion):
        labels.append('translate>=100lambda')
    base = {k: copy.deepcopy(v) for k, v in case.items() if k not in ('motion', 'scale', 'pertag', 'dirs')}
    fails = []
    try:
        m0 = common.solved(base)
    except build.Rejected as e:
        return Result(skipped='rejected: ' + str(e)[:50])
    c0 = common.cond(m0)
    tol = common.gate(c0)
    if tol is None:
        return Result(skipped='condition number above 1e5')
    # ---- (a) invariance under whole-structure motion and scaling
    mv = copy.deepcopy(base)
    mv['xforms'] = list(base['xforms']) + motion
    s = scale or 1.0
    if scale is not None:
        mv['scales'] = [{'f': scale, 'tag': None}]
        if case.get('scale_split'):
            # the same factor as the product of two scale options
            s1_ = case['scale_split']
            mv['scales'] = [{'f': s1_, 'tag': None}, {'f': scale / s1_, 'tag': None}]
        mv['f'] = base['f'] / scale
        for o in mv['objs']:
            if o['type'] == 'wire' and o.get('taper'):
                if o.get('tmin') is not None:
                    o['tmin'] = o['tmin'] * scale
                if o.get('tmax') is not None:
                    o['tmax'] = o['tmax'] * scale
    try:
        m1 = common.solved(mv)
    except build.Rejected as e:
        return Result(fails=[('moved-antenna-rejected', str(e)[:200])], nontrivial=nt, labels=labels)
    I0, I1 = np.array(m0.current), np.array(m1.current)
    if I0.shape != I1.shape:
        fails.append(('invariance:pulse-count', '%d pulses after the motion, %d before' % (len(I1), len(I0))))
        return Result(fails=fails, nontrivial=nt, labels=labels)
    tol1 = common.gate(max(c0, common.cond(m1)))
    if tol1 is None:
        return Result(skipped='condition number above 1e5 after motion')
    what = 'scale' if scale is not None else 'motion'
    err = np.abs(I0 - I1).max() / np.abs(I0).max()
    if err > tol1:
        fails.append(('invariance:currents:' + what, 'currents change by %.3g (tol %.2g, cond %.3g) under %s scale %s'
                      % (err, tol1, c0, [(x['kind'], x['v']) for x in motion], scale)))
    for a, b in zip(m0.sources, m1.sources):
        if abs(a.impedance - b.impedance) > tol1 * common.port_amp(m0, a) * abs(a.impedance):
            fails.append(('invariance:impedance:' + what, 'feed impedance %r becomes %r' % (a.impedance, b.impedance)))
            break
    if fails:
        # classification only (finding F-C05): the order of the Gauss quadrature of a matrix entry is chosen by
        # comparing (d0 + d3) / segment length with 6 and 10; on every uniformly segmented straight wire that ratio
        # equals 6 and 10 exactly, so rounding decides and the result of one and the same antenna scatters.  The
        # scatter of the base under numerically irrelevant rotations about z is measured; a deviation that is not
        # larger than four times this scatter is attributed to it.
        worst_i, worst_z = 0.0, 0.0
        try:
            for ang in (1e-7, 1e-6, 1e-5, 1e-3):
                nb = copy.deepcopy(base)
                kmax = max([x['key'] for x in nb['xforms']] + [0.0])
                nb['xforms'] = list(nb['xforms']) + [{'kind': 'rotate', 'key': kmax + 1000.0, 'v': [0.0, 0.0, ang], 'tag': None}]
                mn = common.solved(nb)
                In = np.array(mn.current)
                worst_i = max(worst_i, np.abs(In - I0).max() / np.abs(I0).max())
                worst_z = max(worst_z, max(abs(a.impedance - b.impedance) / abs(a.impedance) for a, b in zip(m0.sources, mn.sources)))
            errz = max(abs(a.impedance - b.impedance) / abs(a.impedance) for a, b in zip(m0.sources, m1.sources))
            if max(worst_i, worst_z) > 10 * 1.75e-6 and err <= 4 * max(worst_i, 1e-300) + 1.75e-6 and errz <= 4 * max(worst_z, 1e-300) + 1.75e-6:
                fails = [(sig + ':result-scatters-under-null-rotation', det + ' [the unmoved antenna rotated by 1e-7..1e-3 deg '
                          'about z: currents scatter by %.3g, impedances by %.3g]' % (worst_i, worst_z)) for sig, det in fails]
        except build.Rejected:
            pass
    if common.net_power_ok(m0) and common.net_power_ok(m1):
        R = total_rotation(motion)
        dirs0 = case['dirs']
        dirs1 = [angles(R @ unit(*d)) for d in dirs0]
        g0 = gain_at(m0, dirs0)
        g1 = gain_at(m1, dirs1)
        ground = case['env']['kind'] != 'free'
        cols = [0, 1, 2] if ground or not any(x['kind'] == 'rotate' and (x['v'][0] or x['v'][1]) for x in motion) else [2]
        msk = g0[:, 2] > g0[:, 2].max() - 40
        d = np.abs(g0 - g1)[msk][:, cols]
        d = d[g0[msk][:, cols] > -60]
        if d.size and d.max() > common.gain_tol_db((m0, m1), tol1):
            fails.append(('invariance:pattern:' + what, 'gain at rigidly moved directions differs by %.3g dB' % d.max()))
        # the radiated field itself (not normalised with the net power, which is ill-conditioned for reactive feeds):
        # |E| r at the rigidly moved directions, relative to the largest value
        e0, e1 = field_at(m0, dirs0), field_at(m1, dirs1)
        cols_e = [0, 1, 2] if len(cols) == 3 else [2]
        de = np.abs(e0 - e1)[:, cols_e].max() / max(e0[:, 2].max(), 1e-300)
        if de > 2 * tol1:
            fails.append(('invariance:field:' + what, '|E| r at rigidly moved directions differs by %.3g of the largest value (tol %.2g)' % (de, 2 * tol1)))
    # ---- (b) options vs coordinates (wires only)
    if all(o['type'] == 'wire' for o in case['objs']):
        opt = copy.deepcopy(mv)
        opt['xforms'] = (pertag + list(mv['xforms'])) if case.get('pertag_first') else (list(mv['xforms']) + pertag)
        if pertag and scale is not None:
            # a second, tagged scale exercises "scaling last"
            pass
        crd = written_into_coordinates(opt)
        try:
            ma = build.model(opt)
            mb = build.model(crd)
        except build.Rejected as e:
            # per-tag moves may produce geometry the program rejects (below ground, ...): both must agree
            try:
                build.model(opt)
                ok_a = True
            except build.Rejected:
                ok_a = False
            try:
                build.model(crd)
                ok_b = True
            except build.Rejected:
                ok_b = False
            if ok_a != ok_b:
                fails.append(('options-vs-coordinates:acceptance', 'options accepted=%s coordinates accepted=%s' % (ok_a, ok_b)))
            return Result(fails=fails, nontrivial=nt, labels=sorted(set(labels)))
        pa, pb = segpoints(ma), segpoints(mb)
        worst = 0.0
        span = max(np.abs(np.concatenate(pb)).max(), 1e-300)
        for a, b in zip(pa, pb):
            if a.shape != b.shape:
                worst = float('inf')
                break
            worst = max(worst, float(np.abs(a - b).max()))
        if worst > 1e-9 * span:
            fails.append(('options-vs-coordinates:points', 'segment end points differ by %.3g (extent %.3g) between '
                          'transformation options and transformed coordinates' % (worst, span)))
        ra = [g.r_orig for g in ma.geo]
        rb = [g.r_orig for g in mb.geo]
        if any(abs(a - b) > 1e-12 * b for a, b in zip(ra, rb)):
            fails.append(('options-vs-coordinates:radius', 'radii %s vs %s' % (ra, rb)))
        if not fails and rules.check(crd, sep=0.0 if case.get('gap') else 2.0) is None and len(ma.pulses) == len(mb.pulses):
            ma.compute()
            mb.compute()
            t2 = common.gate(max(common.cond(ma), common.cond(mb)))
            if t2 is not None:
                for a, b in zip(ma.sources, mb.sources):
                    if abs(a.impedance - b.impedance) > t2 * common.port_amp(ma, a) * abs(a.impedance):
                        fails.append(('options-vs-coordinates:impedance', '%r vs %r' % (a.impedance, b.impedance)))
                        break
    return Result(fails=fails, nontrivial=nt, labels=sorted(set(labels)))
