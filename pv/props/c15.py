"""C15 Option file written for a model reproduces that model when read back."""
import copy
import math
import numpy as np
from hypothesis import strategies as st

from .. import gen, rules, build, common
from ..runner import Result

ID = 'C15'
RULE = ('Generated: accepted command lines over all model options: wires, arcs and helices (four radii) with automatic, '
        'consecutive, sparse, permuted and mixed tags; tapered wires with and without limits; 0..4 rotate / translate '
        'options (tagged and untagged) and 0..2 scale options; 1..3 sources with complex voltages (negative parts, '
        'a 1 V source among several) in both addressing forms; lumped loads (complex with inductive and capacitive '
        'reactance, series RLC in every R/L/C subset, trap, Laplace) in every attachment form and drawn option order; '
        'skin-effect (conductivity / resistivity) and insulation loads for all wires or for one or several tags; '
        'free space, ideal ground, 1..3 media with either boundary and radials.  Oracle: the text of as_cmdline() must '
        'be accepted by main(); the re-read model must have the same objects (class, tag, segment end points 1e-9, '
        'radius, taper), sources (pulse, voltage 1e-5), loads (kind, parameters, loaded pulses) and media; same feed '
        'impedance; as_cmdline() of the re-read model gives the same set of lines.  Non-trivial = tags differ from '
        'positions, a negative value, >= 2 load kinds, or a tagged transformation.')
BUDGET = {'quick': {'examples': 1600, 'wall': 200}, 'thorough': {'examples': 60000, 'wall': 1500}}
ASSUMPTIONS = ['only accepted command lines are judged (others are counted as outside the domain)']
LABEL_FLOORS = {'tag!=position': 0.3, 'taper': 0.15, 'xform': 0.3, 'tagged-xform': 0.1, 'negative-value': 0.3,
                'load-kinds>=2': 0.15, 'dist-by-tag': 0.1, 'env-real': 0.15, 'curve': 0.15, 'one-volt-among-several': 0.05}


@st.composite
def case_strategy(draw, big=False):
    if draw(st.integers(0, 2)) == 0:
        case = draw(gen.curve_antenna(env_kinds=('free', 'ideal', 'real'), nsrc=(1, 3)))
    else:
        case = draw(gen.antenna(env_kinds=('free', 'ideal', 'real'), max_wires=4, max_seg=5 if not big else 8, nsrc=(1, 3),
                                taper_prob=0.3, star=1))
    lam = gen.C_MHZ_M / case['f']
    build.assign_tags(case)
    tagsl = [o['_tag'] for o in case['objs']]
    ground = case['env']['kind'] != 'free'
    # transformations (keep the structure above ground: z-rotations and upward / horizontal shifts)
    base_keys = [x['key'] for x in case['xforms']] + [0]
    k0 = max(base_keys) + 1
    for i in range(draw(st.sampled_from([0, 0, 1, 2, 4]))):
        kind = draw(st.sampled_from(['rotate', 'translate']))
        tag = draw(st.sampled_from([None, None] + tagsl))
        if kind == 'rotate':
            v = [0.0 if ground else gen.r6(draw(st.floats(-180, 180))), 0.0 if ground else gen.r6(draw(st.floats(-180, 180))),
                 gen.r6(draw(st.floats(-180, 180)))]
        else:
            v = [gen.r6(draw(st.floats(-2, 2)) * lam), gen.r6(draw(st.floats(-2, 2)) * lam), gen.r6(draw(st.floats(0, 2)) * lam)]
        # sort keys may be equal (such transformations act in the order given, rotations first)
        case['xforms'].append({'kind': kind, 'key': float(k0 + (i if draw(st.integers(0, 2)) else draw(st.integers(0, 1)))), 'v': v, 'tag': tag})
    for i in range(draw(st.sampled_from([0, 0, 0, 1, 2]))):
        case['scales'].append({'f': gen.r6(draw(gen.logf(0.5, 2.0))), 'tag': draw(st.sampled_from([None, None] + tagsl))})
    # a 1 V source among several
    if len(case['sources']) >= 2 and draw(st.booleans()):
        case['sources'][draw(st.integers(0, len(case['sources']) - 1))]['v'] = [1.0, 0.0]
    # a voltage of magnitude exactly 1 that is not 1+0j (a pure phase shift)
    if draw(st.integers(0, 3)) == 0:
        case['sources'][draw(st.integers(0, len(case['sources']) - 1))]['v'] = \
            list(draw(st.sampled_from([(0.0, 1.0), (-1.0, 0.0), (0.0, -1.0), (0.6, 0.8), (-0.8, 0.6), (0.6, -0.8)])))
    topo, objs = gen.stand_in_topology(case)
    npl = len(topo.pulses)
    lds = []
    for i in range(draw(st.sampled_from([0, 1, 1, 2, 3, 4])) if npl > 0 else 0):
        l = draw(gen.lumped_load(passive=False))
        form = draw(st.sampled_from(['abs', 'obj', 'all-obj', 'all']))
        if form == 'all':
            l['attach'] = ['all']
        elif form == 'all-obj':
            l['attach'] = [{'all': True, 'tag': t} for t in draw(st.lists(st.sampled_from(tagsl), min_size=1, max_size=min(3, len(tagsl)), unique=True))]
        else:
            at = []
            for j in draw(st.lists(st.integers(0, npl - 1), min_size=1, max_size=4, unique=draw(st.integers(0, 3)) != 0)):     # (a pulse named twice carries the load twice)
                p = topo.pulses[j]
                if form == 'obj':
                    at.append({'k': topo.per_obj[p.owner].index(p), 'tag': objs[p.owner]['tag']})
                else:
                    at.append(j)
            l['attach'] = at
        lds.append(l)
    dist = draw(st.sampled_from(['none', 'none', 'skin', 'ins', 'both']))
    if dist in ('skin', 'both'):
        kind = draw(st.sampled_from(['skin_c', 'skin_r']))
        if draw(st.booleans()):
            lds.append({'kind': kind, 'v': gen.r6(draw(gen.logf(1e-8, 1e8))), 'tag': None})
        else:
            for t in draw(st.lists(st.sampled_from(tagsl), min_size=1, max_size=len(tagsl), unique=True)):
                lds.append({'kind': kind, 'v': gen.r6(draw(gen.logf(1e-8, 1e8))), 'tag': t})
    if dist in ('ins', 'both'):
        if draw(st.booleans()):
            rmax = max(o['obj']['r'] for o in objs) * max([s['f'] for s in case['scales']] + [1.0]) ** 2
            lds.append({'kind': 'ins', 'radius': gen.r6(rmax * draw(st.floats(1.5, 4))), 'eps': gen.r6(draw(st.floats(1.0, 10.0))), 'tag': None})
        else:
            for t in draw(st.lists(st.sampled_from(tagsl), min_size=1, max_size=len(tagsl), unique=True)):
                rr = [o['obj']['r'] for o in objs if o['tag'] == t][0] * max([s['f'] for s in case['scales']] + [1.0]) ** 2
                lds.append({'kind': 'ins', 'radius': gen.r6(rr * draw(st.floats(1.5, 4))), 'eps': gen.r6(draw(st.floats(1.0, 10.0))), 'tag': t})
    case['loads'] = lds
    nat = sum(len(l.get('attach', [])) for l in lds)
    if nat >= 2 and draw(st.booleans()):
        case['attach_perm'] = list(draw(st.permutations(list(range(nat)))))
    # the writer's other attachment form (pulse numbers relative to the object) and the program's own output file
    ch = draw(st.integers(0, 5))
    if ch <= 1:
        case['by_geo'] = True
    elif ch == 2:
        case['via_file'] = True
    return case


def strategy(tier):
    return case_strategy(big=tier == 'thorough')


def describe(m):
    """structural description of a model (for comparing a model with its re-read copy)"""
    d = {'f': m.f, 'objs': [], 'sources': [], 'loads': [], 'media': None}
    for g in m.geo:
        o = {'cls': type(g).__name__, 'tag': g.tag, 'r': g.r_orig, 'n': len(g.segments),
             'pts': np.array([s.p1 for s in g.segments] + [g.segments[-1].p2]),
             'taper': getattr(g, 'segtype', 0), 'tmin': getattr(g, 'taper_min', None), 'tmax': getattr(g, 'taper_max', None)}
        d['objs'].append(o)
    for s in m.sources:
        d['sources'].append((s.idx, complex(s.voltage)))
    for l in m.loads:
        kind = type(l).__name__
        par = None
        if kind == 'Impedance_Load':
            par = [complex(l._impedance)]
        elif kind in ('Laplace_Load', 'Series_RLC_Load', 'Trap_Load'):
            par = [list(map(float, l.a)), list(map(float, l.b))]
        elif kind == 'Skin_Effect_Load':
            par = [l.conductivity, l.geobj.tag]
        elif kind == 'Insulation_Load':
            par = [l.radius, l.epsilon_r, l.geobj.tag]
        d['loads'].append((kind, par, sorted(p.idx for p in l.pulses)))
    if m.media is not None:
        d['media'] = [(x.permittivity, x.conductivity, x.height, x.coord if x.next else None, x.boundary if (x.next or x.prev) else None,
                       x.nradials, x.radius) for x in m.media]
    return d


def rel(a, b, tol):
    return abs(a - b) <= tol * max(abs(a), abs(b)) + 1e-300


def load_key(l):
    """order independent key of a load: loads may be listed in another order after the round trip"""
    kind, par, pulses = l
    return (kind, tuple(pulses))


def compare(d1, d2):
    out = []
    if not rel(d1['f'], d2['f'], 1e-7):
        out.append(('frequency', '%r vs %r' % (d1['f'], d2['f'])))
    if len(d1['objs']) != len(d2['objs']):
        out.append(('object-count', '%d vs %d' % (len(d1['objs']), len(d2['objs']))))
        return out
    for a, b in zip(d1['objs'], d2['objs']):
        if a['cls'] != b['cls'] or a['tag'] != b['tag'] or a['n'] != b['n']:
            out.append(('object:class-tag-segments', '%s tag %s n %s  vs  %s tag %s n %s' % (a['cls'], a['tag'], a['n'], b['cls'], b['tag'], b['n'])))
            continue
        if a['taper'] != b['taper']:
            out.append(('object:taper', 'tag %d: taper type %s vs %s' % (a['tag'], a['taper'], b['taper'])))
        span = max(np.abs(a['pts']).max(), 1e-300)
        if a['pts'].shape != b['pts'].shape or np.abs(a['pts'] - b['pts']).max() > 1e-9 * span:
            out.append(('object:points' + (':tapered' if a['taper'] else ''), 'tag %d: segment end points differ by %.3g (extent %.3g)'
                        % (a['tag'], np.abs(a['pts'] - b['pts']).max() if a['pts'].shape == b['pts'].shape else float('nan'), span)))
        if not rel(a['r'], b['r'], 1e-9):
            out.append(('object:radius', 'tag %d: %r vs %r' % (a['tag'], a['r'], b['r'])))
    if len(d1['sources']) != len(d2['sources']):
        out.append(('source-count', '%d vs %d' % (len(d1['sources']), len(d2['sources']))))
    else:
        for (i1, v1), (i2, v2) in zip(d1['sources'], d2['sources']):
            if i1 != i2:
                out.append(('source:pulse', 'pulse %d vs %d' % (i1 + 1, i2 + 1)))
            if abs(v1 - v2) > 1e-5 * abs(v1):
                out.append(('source:voltage', '%r vs %r' % (v1, v2)))
    l1 = sorted(d1['loads'], key=load_key)
    l2 = sorted(d2['loads'], key=load_key)
    if [load_key(x) for x in l1] != [load_key(x) for x in l2]:
        out.append(('loads:kinds-or-pulses', '%s  vs  %s' % ([load_key(x) for x in l1], [load_key(x) for x in l2])))
    else:
        for a, b in zip(l1, l2):
            fa = np.array(_flat(a[1]), dtype=complex)
            fb = np.array(_flat(b[1]), dtype=complex)
            if fa.shape != fb.shape or (np.abs(fa - fb) > 1e-5 * np.maximum(np.abs(fa), np.abs(fb)) + 1e-300).any():
                out.append(('loads:parameters:' + a[0], '%s vs %s' % (a[1], b[1])))
    if (d1['media'] is None) != (d2['media'] is None):
        out.append(('media:presence', ''))
    elif d1['media'] is not None:
        if len(d1['media']) != len(d2['media']):
            out.append(('media:count', '%d vs %d' % (len(d1['media']), len(d2['media']))))
        else:
            for a, b in zip(d1['media'], d2['media']):
                for x, y in zip(a, b):
                    if isinstance(x, str) or isinstance(y, str) or x is None or y is None:
                        if x != y:
                            out.append(('media:field', '%r vs %r' % (a, b)))
                            break
                    elif not rel(x, y, 1e-5):
                        out.append(('media:field', '%r vs %r' % (a, b)))
                        break
    return out


def _flat(x):
    if isinstance(x, (list, tuple)):
        r = []
        for y in x:
            r += _flat(y)
        return r
    return [x]


def written_by_main(argv):
    """the option file the program itself writes for this command line (--output-cmdline), or None"""
    import tempfile, shutil, os
    d = tempfile.mkdtemp(prefix='pv_c15_')
    try:
        f = os.path.join(d, 'opts')
        try:
            build.run_main(list(argv) + ['--output-cmdline=' + f], False)
        except SystemExit:
            return None
        except Exception:
            if not os.path.exists(f):
                raise
        if not os.path.exists(f):
            return None
        return open(f).read()
    finally:
        shutil.rmtree(d, ignore_errors=True)


def check(case):
    labels = common.base_labels(case)
    try:
        m = build.model(case)
    except build.Rejected as e:
        return Result(skipped='rejected: ' + str(e)[:40])
    except SystemExit:
        return Result(skipped='usage error for the generated command line')
    robjs = build.ref_objs(case, m)
    tagpos = [o['tag'] for o in robjs]
    nt = False
    if tagpos != list(range(1, len(robjs) + 1)):
        labels.append('tag!=position')
        nt = True
    if any(o['obj']['type'] != 'wire' for o in robjs):
        labels.append('curve')
    if any(o['obj'].get('taper') for o in robjs):
        labels.append('taper')
    if case['xforms'] or case['scales']:
        labels.append('xform')
    if any(x.get('tag') is not None for x in case['xforms'] + case['scales']):
        labels.append('tagged-xform')
        nt = True
    neg = any(s['v'][0] < 0 or s['v'][1] < 0 for s in case['sources'])
    for l in case['loads']:
        if l['kind'] == 'z' and (l['z'][0] < 0 or l['z'][1] < 0):
            neg = True
    if neg:
        labels.append('negative-value')
        nt = True
    kinds = set(l['kind'] for l in case['loads'])
    if len(kinds) >= 2:
        labels.append('load-kinds>=2')
        nt = True
    if any(l['kind'] in ('skin_c', 'skin_r', 'ins') and l.get('tag') is not None for l in case['loads']):
        labels.append('dist-by-tag')
    if len(case['sources']) >= 2 and any(s['v'] == [1.0, 0.0] for s in case['sources']) and any(s['v'] != [1.0, 0.0] for s in case['sources']):
        labels.append('one-volt-among-several')
    by_geo = bool(case.get('by_geo'))
    via_file = bool(case.get('via_file'))
    if by_geo:
        labels.append('attach-relative-to-object')
    if via_file:
        labels.append('written-by-main')
        text = written_by_main(build.argv_of(case))
        if text is None:
            return Result(fails=[('write:no-option-file', 'the accepted command line run with --output-cmdline leaves no option file')],
                          nontrivial=nt, labels=sorted(set(labels)))
    else:
        text = m.as_cmdline(load_by_geo=by_geo)
    fails = []
    try:
        r, out, err = build.run_main(text.split(), True)
    except SystemExit as e:
        # argparse usage error: find the offending option
        import re
        bad = [t for t in text.split() if re.search(r'\+-|--[a-z-]+=[^ ]*e\+?-?\d+\+-', t)]
        what = 'load-with-+-' if any(t.startswith('--load=') and '+-' in t for t in text.split()) else 'other'
        return Result(fails=[('reread:usage-error:' + what, 'option file is rejected by the option parser; suspicious options: %s' % bad[:3])],
                      nontrivial=nt, labels=sorted(set(labels)))
    except Exception as e:
        return Result(fails=[('reread:exception:' + type(e).__name__, repr(e)[:200])], nontrivial=nt, labels=sorted(set(labels)))
    if not isinstance(r, build.mm.Mininec):
        msg = (out + err).strip()
        key = 'other'
        if 'excitation pulses must match' in msg:
            key = 'excitation-count'
        elif 'taper' in msg:
            key = 'taper'
        elif 'Not all loads' in msg or 'Load index' in msg:
            key = 'load-numbering'
            if any(not l.pulses for l in m.loads):
                key = 'load-without-pulses'
        return Result(fails=[('reread:rejected:' + key, 'option file is rejected: %s' % msg[:200])], nontrivial=nt, labels=sorted(set(labels)))
    m2 = r
    d1, d2 = describe(m), describe(m2)
    fails += compare(d1, d2)
    # (4) writing again gives the same set of options
    t2 = (written_by_main(text.split()) or '') if via_file else m2.as_cmdline(load_by_geo=by_geo)
    s1 = set(x for x in text.split('\n') if x.strip())
    s2 = set(x for x in t2.split('\n') if x.strip())
    if s1 != s2:
        fails.append(('rewrite-differs', 'only in first: %s; only in second: %s' % (sorted(s1 - s2)[:4], sorted(s2 - s1)[:4])))
    # (3) feed impedance
    resonant = any(l['kind'] in ('trap', 'laplace') or (l['kind'] == 'rlc' and l['L'] and l['C']) for l in case['loads'])
    # near a resonance of a lumped load the impedance amplifies the 6-digit rounding of L and C without bound;
    # the parameters themselves were compared above
    if not fails and not resonant and rules.check(case) is None and common.junction_ratio_violation(build.ref_topology(case, m)) is None:
        try:
            m.compute()
            m2.compute()
            c = max(common.cond(m), common.cond(m2))
            if np.isfinite(c) and c < 1e6:
                tol = 5e-3 * (1 + c / 1e3)      # six printed digits, amplified by cancellation in the matrix
                # series loads are printed with six digits: their rounding enters the feed impedance absolutely
                slack = sum(1e-5 * abs(complex(*l['z'])) * max(1, len(ld.pulses)) for l, ld in zip(
                    [l for l in case['loads'] if l['kind'] == 'z'], [ld for ld in m.loads if type(ld).__name__ == 'Impedance_Load']))
                for a, b in zip(m.sources, m2.sources):
                    if abs(a.impedance - b.impedance) > tol * abs(a.impedance) + slack:
                        fails.append(('impedance', '%r vs %r after the round trip (cond %.3g)' % (a.impedance, b.impedance, c)))
                        break
        except Exception:
            pass
    uniq = {}
    for s_, d_ in fails:
        uniq.setdefault(s_, d_)
    return Result(fails=list(uniq.items()), nontrivial=nt, labels=sorted(set(labels)))
