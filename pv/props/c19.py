"""C19 Report text faithfully carries the computed values."""
import io
import math
import contextlib
import collections
import multiprocessing
import numpy as np
from hypothesis import strategies as st

from .. import gen, rules, build, common
from ..runner import Result, case_hash
from ..ref import report

ID = 'C19'
RULE = ('Part (a): the number formatter alone on values of either sign over 1e-30..1e12, biased to powers of ten +- a '
        'few ulps / +- 5e-7 relative, both use_e settings (enumerated grid, sharded).  Part (b): whole reports of '
        'generated models (wires, arcs, helices; free space / ideal / real ground; 1..3 sources with non-integer '
        'magnitudes and phases; lumped, skin-effect and insulation loads; dBi table, V/m table with drawn power and '
        'distance, near-field blocks with drawn power) produced by main(argv), parsed by the independent report '
        'parser and compared number by number with the model (frequency, geometry, radius, media, source listing, '
        'load listing, SOURCE DATA, CURRENT DATA, patterns, near fields, peak field), tolerance 5e-6 relative (5e-5 '
        'for magnitudes in [0.1, 1)), 1e-6 absolute for fixed-point fields; magnitude / phase columns vs real / '
        'imaginary columns (1e-5); structure: one geometry row and one current row per pulse in its object\'s block, '
        'one source block per source, one load line per loaded pulse.  Non-trivial = a value within 1e-6 of a power '
        'of ten, values below 1e-7 / above 1e7, or >= 2 sources.')
BUDGET = {'quick': {'examples': 1600, 'wall': 200}, 'thorough': {'examples': 20000, 'wall': 1500}}
ASSUMPTIONS = ['report parser written from the column layout and validated on the golden reports']
FLOOR_EXCLUDE_LABEL = 'formatter-value'
LABEL_FLOORS = {'near-field': 0.2, 'far-field-absolute': 0.2, 'multi-source': 0.4, 'loaded': 0.3, 'env-real': 0.1}


@st.composite
def case_strategy(draw, big=False):
    if draw(st.integers(0, 4)) == 0:
        case = draw(gen.curve_antenna(env_kinds=('free', 'ideal', 'real'), nsrc=(1, 3)))
    else:
        case = draw(gen.antenna(env_kinds=('free', 'ideal', 'real'), max_wires=3, max_seg=5 if not big else 8, nsrc=(1, 3),
                                taper_prob=0.1))
    topo, objs = gen.stand_in_topology(case)
    lds = []
    for i in range(draw(st.sampled_from([0, 0, 1, 2]))):
        kind = draw(st.sampled_from(['lumped', 'lumped', 'skin', 'ins']))
        if kind == 'lumped':
            l = draw(gen.lumped_load(kinds=('z', 'rlc', 'laplace')))
            l['attach'] = draw(st.lists(st.integers(0, len(topo.pulses) - 1), min_size=1, max_size=2, unique=True))
            if draw(st.integers(0, 3)) == 0:
                # the same load attached once more to one of its pulses (series loading): one more load line
                l['attach'] = l['attach'] + [l['attach'][0]]
            lds.append(l)
        elif kind == 'skin' and not any(x['kind'].startswith('skin') for x in lds):
            lds.append({'kind': 'skin_c', 'v': gen.r6(draw(gen.logf(1e4, 1e8))), 'tag': None})
        elif kind == 'ins' and not any(x['kind'] == 'ins' for x in lds):
            rr = max(o['obj']['r'] for o in objs)
            lds.append({'kind': 'ins', 'radius': gen.r6(rr * draw(st.floats(1.2, 3))), 'eps': gen.r6(draw(st.floats(1.0, 6.0))), 'tag': None})
    case['loads'] = lds
    opts = draw(st.sampled_from([['far-field'], ['far-field-absolute'], ['near-field'], ['far-field', 'near-field'],
                                 ['far-field', 'far-field-absolute', 'near-field'], ['none']]))
    case['options'] = opts
    ground = case['env']['kind'] != 'free'
    case['theta'] = [gen.r6(draw(st.floats(0, 40))), gen.r6(draw(st.floats(1, 20))), draw(st.integers(1, 3))]
    case['phi'] = [gen.r6(draw(st.floats(-180, 180))), gen.r6(draw(st.floats(1, 90))), draw(st.integers(1, 3))]
    case['ffpwr'] = gen.r6(draw(gen.logf(1e-6, 1e9))) if draw(st.booleans()) else None
    case['ffdist'] = gen.r6(draw(gen.logf(1e-2, 1e7))) if draw(st.booleans()) else None
    lam = gen.C_MHZ_M / case['f']
    case['near'] = [gen.r6(draw(st.floats(-2, 2)) * lam), gen.r6(draw(st.floats(-2, 2)) * lam), gen.r6(draw(st.floats(0.3, 2)) * lam) + (100 * lam if False else 0),
                    gen.r6(draw(st.floats(0.01, 1)) * lam), gen.r6(draw(st.floats(0.01, 1)) * lam), gen.r6(draw(st.floats(0.01, 1)) * lam),
                    draw(st.integers(1, 2)), draw(st.integers(1, 2)), 1]
    case['nfpwr'] = gen.r6(draw(gen.logf(1e-6, 1e9))) if draw(st.booleans()) else None
    # every numeric field at every magnitude: source voltages from 1e-30 to 1e9 V (the solution is linear in them)
    if draw(st.integers(0, 3)) == 0:
        sc = 10.0 ** draw(st.integers(-30, 9))
        for s_ in case['sources']:
            s_['v'] = [float('%.6g' % (s_['v'][0] * sc)), float('%.6g' % (s_['v'][1] * sc))]
        case['vscale'] = sc
    return case


def strategy(tier):
    return case_strategy(big=tier == 'thorough')


def pc(a, b, fixed=False):
    return report.printed_close(a, b, fixed)


def check(case):
    why = rules.check(case, check_seg=False)
    if why:
        return Result(skipped=why)
    labels = common.base_labels(case)
    build.assign_tags(case)
    argv = build.argv_of(case)
    opts = case['options']
    for o in opts:
        argv.append('--option=' + o)
        labels.append(o)
    th, ph = case['theta'], case['phi']
    argv += ['--theta=%r,%r,%d' % tuple(th), '--phi=%r,%r,%d' % tuple(ph)]
    if case['ffpwr'] is not None:
        argv.append('--ff-power=%r' % case['ffpwr'])
    if case['ffdist'] is not None:
        argv.append('--ff-distance=%r' % case['ffdist'])
    if 'near-field' in opts:
        nf = case['near']
        argv.append('--near-field=' + ','.join([repr(float(x)) for x in nf[:6]] + [str(int(x)) for x in nf[6:]]))
        if case['nfpwr'] is not None:
            argv.append('--nf-power=%r' % case['nfpwr'])
    # the reference model first: reports of models whose sources deliver no net power contain undefined
    # gains / NaN (judged by C20), nothing to compare
    try:
        m0 = common.solved(case)
    except build.Rejected as e:
        return Result(skipped='rejected: ' + str(e)[:50])
    if not m0.power > 0:
        return Result(skipped='sources deliver no net power (normalisation undefined; NaN output is judged by C20)')
    try:
        r, out, err = build.run_main(argv, return_mininec=False)
    except AssertionError:
        return Result(skipped='taper assertion')
    if r is not None:
        return Result(skipped='rejected: ' + (out + err).strip()[:50])
    # the same model, solved through the API for the reference values
    try:
        m = common.solved(case)
    except build.Rejected as e:
        return Result(skipped='rejected: ' + str(e)[:50])
    A = build.mm.Angle
    fails = []
    try:
        rep = report.parse(out)
    except report.ParseError as e:
        return Result(fails=[('unparsable', str(e)[:300])], labels=labels)
    topo = build.ref_topology(case, m)
    nt = len(case['sources']) >= 2
    seen = []

    def cmpv(name, printed, value, fixed=False):
        seen.append(value)
        if not pc(printed, value, fixed):
            fails.append((name, 'prints %r for %r' % (printed, value)))

    # frequency, wavelength
    cmpv('frequency', rep['frequency'], case['f'], True)
    cmpv('wavelength', rep['wavelength'], 299.8 / case['f'], True)
    env = case['env']
    if env['kind'] == 'free':
        if rep['environment'] != 1:
            fails.append(('environment', 'free space printed as %r' % rep['environment']))
    else:
        if rep['environment'] != -1:
            fails.append(('environment', 'ground printed as %r' % rep['environment']))
        if env['kind'] == 'ideal':
            if rep['nmedia'] != 0:
                fails.append(('media-count', 'ideal ground prints %r media' % rep['nmedia']))
        else:
            labels.append('env-real')
            if rep['nmedia'] != len(env['media']) or len(rep['media']) != len(env['media']):
                fails.append(('media-count', '%r media printed for %d' % (rep['nmedia'], len(env['media']))))
            else:
                for i, (pm, cm) in enumerate(zip(rep['media'], env['media'])):
                    cmpv('medium:eps', pm['eps'], cm['eps'], True)
                    cmpv('medium:sigma', pm['sigma'], cm['sigma'], True)
                    if i > 0:
                        cmpv('medium:height', pm.get('height', float('nan')), cm['height'], True)
                    if i < len(env['media']) - 1:
                        cmpv('medium:coord', pm.get('coord', float('nan')), cm['coord'], True)
                if len(env['media']) > 1:
                    want = 2 if env.get('boundary') == 'circular' else 1
                    if rep['boundary'] != want:
                        fails.append(('boundary-type', 'TYPE OF BOUNDARY printed as %r for a %s boundary' % (rep['boundary'], env.get('boundary'))))
                    labels.append('boundary-' + str(env.get('boundary')) + ('-radials' if env.get('radials') else ''))
                if env.get('radials'):
                    if rep['media'][0].get('nradials') != env['radials']['n']:
                        fails.append(('medium:radials', 'prints %r radials for %d' % (rep['media'][0].get('nradials'), env['radials']['n'])))
                    cmpv('medium:radial-radius', rep['media'][0].get('radial_radius', float('nan')), env['radials']['r'], True)
    # objects and geometry rows
    if len(rep['objects']) != len(topo.objs) or len(rep['geometry']) != len(topo.objs):
        fails.append(('structure:object-count', '%d object blocks for %d objects' % (len(rep['objects']), len(topo.objs))))
    else:
        for w_, (o, po, pg, ref) in enumerate(zip(topo.objs, rep['objects'], rep['geometry'], topo.per_obj)):
            for i in range(3):
                cmpv('object:end1', po['p1'][i], o['segs'][0][i], True)
                cmpv('object:end2', po['p2'][i], o['segs'][-1][i], True)
            cmpv('object:radius', po['radius'], o['obj']['r'] * (o['r'] / o['obj']['r']), True)
            if po['nseg'] != len(o['segs']) - 1:
                fails.append(('object:segments', 'prints %d segments for %d' % (po['nseg'], len(o['segs']) - 1)))
            # END CONNECTION column: minus the object's own tag for an end on the ground plane, 0 for a free end and
            # for the earliest object of a junction, otherwise the tag of the earliest object of the junction, negative
            # if the two objects meet with like ends
            for e_, key_ in ((0, 'conn1'), (1, 'conn2')):
                if (w_, e_) in topo.grounded:
                    want_c = -o['tag']
                else:
                    j_ = topo.junctions[topo.junc_of[(w_, e_)]]
                    if [x[0] for x in j_].count(w_) > 1:
                        continue                      # an object closed on itself
                    first_ = j_[0]
                    want_c = 0 if (len(j_) == 1 or first_[0] == w_) else topo.objs[first_[0]]['tag'] * (-1 if first_[1] == e_ else 1)
                if po[key_] != want_c:
                    fails.append(('object:end-connection', 'object tag %d end %d: END CONNECTION prints %d, expected %d'
                                  % (o['tag'], e_ + 1, po[key_], want_c)))
            if len(pg['rows']) != len(ref):
                fails.append(('structure:geometry-rows', 'tag %d: %d geometry rows for %d pulses' % (pg['tag'], len(pg['rows']), len(ref))))
                continue
            for row, rp in zip(pg['rows'], ref):
                if row['no'] != rp.idx + 1:
                    fails.append(('structure:geometry-number', 'row %d where pulse %d expected' % (row['no'], rp.idx + 1)))
                for i in range(3):
                    cmpv('geometry:point', row['p'][i], rp.pt[i], True)
                # CONNECTION columns END1 / END2 of the pulse row: the tag of the object each half lies on, negative
                # where that half runs against its object (like ends joined) or is the image half of a ground
                # pulse, 0 where the half ends at a free end / at the earliest end of a junction
                n_ = len(o['segs']) - 1
                tg_ = lambda w__: topo.objs[w__]['tag']
                first_of = lambda e__: (w_, e__) not in topo.grounded and topo.junctions[topo.junc_of[(w_, e__)]][0] == (w_, e__)
                if rp.kind == 'gnd':
                    want_cc = [-o['tag'], o['tag']] if rp.gnd_end == 0 else [o['tag'], -o['tag']]
                else:
                    want_cc = [lg[2] * tg_(lg[0]) for lg in rp.legs]
                    for k_, lg in enumerate(rp.legs):
                        if lg[0] == w_ and ((lg[1] == 0 and k_ == 0 and first_of(0)) or (lg[1] == n_ - 1 and k_ == 1 and first_of(1))):
                            want_cc[k_] = 0
                closed_ = any((w_, e__) not in topo.grounded and [x[0] for x in topo.junctions[topo.junc_of[(w_, e__)]]].count(w_) > 1
                              for e__ in (0, 1))
                if [row['c1'], row['c2']] != want_cc and not closed_:
                    fails.append(('geometry:connection-columns:' + rp.kind, 'pulse %d of tag %d prints %r, expected %r'
                                  % (rp.idx + 1, o['tag'], [row['c1'], row['c2']], want_cc)))
    # sources listing
    srcs = case['sources']
    if rep['n_sources'] != len(srcs) or len(rep['source_data']) != len(srcs):
        fails.append(('structure:source-blocks', '%d / %d source entries for %d sources' % (rep['n_sources'], len(rep['source_data']), len(srcs))))
    else:
        I = np.array(m.current)
        for s, lst, sd in zip(srcs, rep['sources_listing'], rep['source_data']):
            v = complex(*s['v'])
            mag, phs = abs(v), math.degrees(math.atan2(v.imag, v.real))
            if lst[0] != s['_idx'] + 1 or sd['pulse'] != s['_idx'] + 1:
                fails.append(('source:pulse-number', 'listed as %r / %r, is %d' % (lst[0], sd['pulse'], s['_idx'] + 1)))
            seen.extend([mag, phs])
            if not pc(lst[1], mag, True):
                fails.append(('source-listing:magnitude', 'prints %r for %r V' % (lst[1], mag)))
            dphi = abs((lst[2] - phs + 180) % 360 - 180)
            if dphi > max(1e-6, 5e-6 * abs(phs)):
                fails.append(('source-listing:phase', 'prints %r for %r degrees' % (lst[2], phs)))
            i = I[s['_idx']]
            for nm, pv, tv, fx in (('voltage', sd['v'], v, True), ('current', sd['i'], i, False), ('impedance', sd['z'], v / i, False)):
                seen.extend([tv.real, tv.imag])
                if not report.cprinted_close(pv, tv, fx):
                    fails.append(('source-data:' + nm, 'prints %r for %r' % (pv, tv)))
            cmpv('source-data:power', sd['p'], 0.5 * (v * np.conj(i)).real)
    # loads
    want_lines = []
    for ld in m.loads:
        for p in ld.pulses:
            want_lines.append((p.idx + 1, ld))
    if case.get('vscale'):
        labels.append('voltages-scaled')
        if case['vscale'] <= 1e-12:
            labels.append('currents-below-1e-14')
    if case['loads']:
        labels.append('loaded')
    if rep['n_loads'] != len(want_lines) or len(rep['loads']) != len(want_lines):
        fails.append(('structure:load-lines', '%d announced, %d lines for %d loaded pulses' % (rep['n_loads'], len(rep['loads']), len(want_lines))))
    else:
        for pl, (pno, ld) in zip(rep['loads'], want_lines):
            if pl['pulse'] != pno:
                fails.append(('load-listing:pulse', 'line names pulse %d, load is on %d' % (pl['pulse'], pno)))
            if 'r' in pl:
                z = ld.impedance(case['f'], m.pulses[pno - 1])
                seen.extend([z.real, z.imag])
                if not (pc(pl['r'], z.real, True) and pc(pl['x'], z.imag, True)):
                    fails.append(('load-listing:impedance', 'prints %r %+rj for %r' % (pl['r'], pl['x'], z)))
    # currents
    I = np.array(m.current)
    if len(rep['currents']) != len(topo.objs):
        fails.append(('structure:current-blocks', '%d blocks' % len(rep['currents'])))
    else:
        nrows = 0
        for blk in rep['currents']:
            for row in blk['rows']:
                if isinstance(row[0], int):
                    nrows += 1
                    c = I[row[0] - 1]
                    seen.extend([c.real, c.imag])
                    if not report.cprinted_close(complex(row[1], row[2]), c):
                        fails.append(('current:value', 'pulse %d prints %r for %r' % (row[0], complex(row[1], row[2]), c)))
                        break
                    if not pc(row[3], abs(c)):
                        fails.append(('current:magnitude', 'pulse %d prints |I| = %r for %r' % (row[0], row[3], abs(c))))
                        break
                    pr = complex(row[1], row[2])
                    if abs(pr) > 0 and abs(abs(pr) - row[3]) > 1e-5 * abs(pr):
                        fails.append(('current:mag-vs-components', 'pulse %d' % row[0]))
                    dph = abs((row[4] - math.degrees(math.atan2(c.imag, c.real)) + 180) % 360 - 180)
                    if dph > 1e-4 and abs(c) > 0:
                        fails.append(('current:phase', 'pulse %d prints phase %r for %r' % (row[0], row[4], math.degrees(math.atan2(c.imag, c.real)))))
                        break
        # junction rows ('J'): the current through that wire end, i.e. the signed sum of the pulse currents through it
        # (same oracle as C09; the end-1 rows of junctions with >= 3 ends are left to C09, see finding F-C09a)
        from ..ref import topology as rtop
        imax_ = float(np.abs(I).max()) or 1.0
        for w, blk in enumerate(rep['currents']):
            rows = blk['rows']
            for e in (0, 1):
                if (w, e) in topo.grounded or not rows:
                    continue
                j = topo.junctions[topo.junc_of[(w, e)]]
                if len(j) < 2 or (j[0] == (w, e) and e == 0 and len(j) >= 3):
                    continue
                row = rows[0] if e == 0 else rows[-1]
                if row[0] != 'J':
                    fails.append(('structure:junction-row', 'object %d end %d: no J row (%r)' % (w, e + 1, row[0])))
                    break
                ref, cnt = rtop.end_current(topo, I, w, e)
                val = complex(row[1], row[2])
                seen.extend([ref.real, ref.imag])
                if abs(val - ref) > 5e-6 * max(abs(ref), abs(val)) + 2e-7 * imax_:
                    fails.append(('current:junction-row', 'object %d end %d prints %r, the pulse currents through this end sum to %r'
                                  % (w, e + 1, val, ref)))
                    break
                if abs(val) > 0 and abs(abs(val) - row[3]) > 1e-5 * abs(val):
                    fails.append(('current:mag-vs-components', 'J row of object %d' % w))
    # far field
    kw = {}
    if case['ffpwr'] is not None:
        kw['pwr'] = case['ffpwr']
    if case['ffdist'] is not None:
        kw['dist'] = case['ffdist']
    if 'far-field' in opts or 'far-field-absolute' in opts:
        m.compute_far_field(A(*th), A(*ph), **kw)
        g = np.array(m.far_field.gain)
        zen, azi = np.array(m.far_field.zen).T, np.array(m.far_field.azi).T
        et, ep = np.array(m.far_field.e_theta).T, np.array(m.far_field.e_phi).T
        if not (et.shape == ep.shape == zen.shape == azi.shape == g.shape[:2] == (th[2], ph[2])):
            fails.append(('structure:far-field-array-shapes', 'e_theta %s, e_phi %s, zen %s, azi %s, gain %s for %d x %d directions'
                          % (np.shape(m.far_field.e_theta), np.shape(m.far_field.e_phi), np.shape(m.far_field.zen),
                             np.shape(m.far_field.azi), g.shape, th[2], ph[2])))
            return Result(fails=fails, nontrivial=True, labels=sorted(set(labels)))
        order = [(i, j) for j in range(ph[2]) for i in range(th[2])]
        if 'far-field' in opts:
            rows = (rep.get('far_db') or {}).get('rows')
            if rows is None or len(rows) != len(order):
                fails.append(('structure:dbi-rows', '%s rows for %d directions' % (None if rows is None else len(rows), len(order))))
            else:
                for row, (i, j) in zip(rows, order):
                    cmpv('dbi:angle', row[0], zen[i, j], True)
                    cmpv('dbi:angle', row[1], azi[i, j], True)
                    for c_ in range(3):
                        cmpv('dbi:value', row[2 + c_], g[i, j, c_], True)
        if 'far-field-absolute' in opts:
            fa = rep.get('far_abs')
            if fa is None or len(fa['rows']) != len(order):
                fails.append(('structure:vm-rows', 'V/m table missing or wrong size'))
            else:
                cmpv('vm:distance', fa['dist'], m.ff_dist)
                cmpv('vm:power', fa['power'], m.ff_power)
                for row, (i, j) in zip(fa['rows'], order):
                    for nm, pv, tv, fx in (('vm-table:angle', row[0], zen[i, j], True), ('vm-table:angle', row[1], azi[i, j], True),
                                           ('vm-table:magnitude', row[2], abs(et[i, j]), False), ('vm-table:magnitude', row[4], abs(ep[i, j]), False)):
                        seen.append(tv)
                        if not pc(pv, tv, fx):
                            # the table is written with %.3E (magnitudes) and two decimals (angles): is the
                            # value at least right to the precision of that format?
                            within = abs(pv - tv) <= (5.01e-3 if fx else 5.01e-4 * abs(tv))
                            fails.append((nm + (':table-format-has-4-digits-only' if within else ''),
                                          'V/m table prints %r for %r' % (pv, tv)))
                    for pv, tv in ((row[3], et[i, j]), (row[5], ep[i, j])):
                        if abs(tv) > 1e-3 * max(np.abs(et).max(), np.abs(ep).max()):
                            want = math.degrees(math.atan2(tv.imag, tv.real))
                            dphi = abs((pv - want + 180) % 360 - 180)
                            if dphi > max(1e-6, 5e-6 * abs(want)):
                                fails.append(('vm-table:phase' + (':table-format-has-4-digits-only' if dphi <= 5.01e-3 else ''),
                                              'V/m table prints phase %r for %r' % (pv, want)))
    if 'near-field' in opts:
        nf = case['near']
        kw = {} if case['nfpwr'] is None else {'pwr': case['nfpwr']}
        m.compute_near_field(nf[:3], nf[3:6], [int(x) for x in nf[6:]], **kw)
        for key, fld, lab in (('near_e', m.e_field, 'near-E'), ('near_h', m.h_field, 'near-H')):
            blocks = rep.get(key)
            if blocks is None or len(blocks) != len(fld):
                fails.append(('structure:near-blocks', '%s: %s blocks for %d points' % (key, None if blocks is None else len(blocks), len(fld))))
                continue
            for b, v, coord in zip(blocks, fld, np.array(m.near_field_coord).T):
                for i in range(3):
                    cmpv(lab + ':point', b['point'][i], coord[i], True)
                p1, p2 = 0j, 0.0
                for ax, val in zip('XYZ', v):
                    row = b['comps'][ax]
                    seen.extend([val.real, val.imag])
                    if not report.cprinted_close(complex(row[0], row[1]), complex(val)):
                        fails.append((lab + ':component', 'prints %r for %r' % (complex(row[0], row[1]), complex(val))))
                    if not pc(row[2], abs(val)):
                        fails.append((lab + ':magnitude', 'prints %r for %r' % (row[2], abs(val))))
                    if abs(val) > 0:
                        want = math.degrees(math.atan2(val.imag, val.real))
                        if abs((row[3] - want + 180) % 360 - 180) > 1e-4:
                            fails.append((lab + ':phase', 'prints %r for %r' % (row[3], want)))
                    a_ = math.atan2(val.imag, val.real)
                    p1 += abs(val) ** 2 * np.exp(-2j * a_)
                    p2 += abs(val) ** 2
                cmpv(lab + ':peak', b['peak'], math.sqrt(p2 / 2 + abs(p1) / 2))
    for v in seen:
        a = abs(v)
        if a > 0:
            l10 = math.log10(a)
            if abs(l10 - round(l10)) < 5e-7 or a < 1e-7 or a > 1e7:
                nt = True
                break
    # keep one failure per signature
    uniq = {}
    for s_, d_ in fails:
        uniq.setdefault(s_, d_)
    return Result(fails=list(uniq.items()), nontrivial=nt, labels=sorted(set(labels)))


# ---------------------------------------------------------------------------
# part (a): the formatter alone

def _fmt_values():
    vals = []
    for e in range(-30, 13):
        p = 10.0 ** e
        for d in (0, 1, -1, 2, -2, 5, -5):
            v = p
            for _ in range(abs(d)):
                v = np.nextafter(v, np.inf if d > 0 else 0.0)
            vals.append(float(v))
        for rel in (5e-7, -5e-7, 4.9e-7, 5.1e-7, -4.9e-7, 1e-6, -1e-6, 5e-8, -5e-8, 1e-3, -1e-3):
            vals.append(p * (1 + rel))
        for mant in (1.2345678, 9.9999994, 9.9999996, 9.99999949, 9.9999995, 5.5555555, 3.0, 7.4999999, 2.5000005, 1.0000005,
                     9.87654321, 4.44444445, 1.99999995, 6.66666665):
            vals.append(mant * p)
    return vals


def _fmt_chunk(chunk):
    ff = build.mm.format_float if hasattr(build.mm, 'format_float') else None
    from mininec.util import format_float
    out = []
    for v, use_e in chunk:
        for sgn in (1.0, -1.0):
            x = v * sgn
            s = format_float((x,), use_e=use_e)[0]
            bad = None
            try:
                pv = report.num(s)
            except report.ParseError:
                bad = 'not a number: %r' % s
                pv = None
            if bad is None:
                fixed = not use_e or abs(x) >= 0.1
                ok = report.printed_close(pv, x, fixed=not use_e)
                if not ok and not use_e and abs(x) < 1e-6:
                    ok = abs(pv - x) <= 1.0000001e-6
                if not ok:
                    bad = 'prints %r (%r) for %r' % (s, pv, x)
                if len(s) > 14:
                    pass
            out.append((x, use_e, bad))
    return out


def enumerate_part(tier, seed, nproc, deadline):
    vals = _fmt_values()
    if tier == 'thorough':
        # denser mantissa grid
        extra = []
        for e in range(-30, 13):
            for mnt in np.linspace(1.0, 9.9999999, 400):
                extra.append(float(mnt) * 10.0 ** e)
        vals += extra
    items = [(v, u) for v in vals for u in (0, 1)]
    chunks = [items[i::nproc] for i in range(nproc)]
    st_ = {'evaluations': 0, 'nt': [], 'labels': {}, 'skipped': {}, 'samples': [], 'truncated': False, 'error': None, 'fails': {}}
    lab = collections.Counter()
    ctx = multiprocessing.get_context('spawn')
    with ctx.Pool(nproc) as pool:
        for res in pool.imap_unordered(_fmt_chunk, chunks):
            for x, use_e, bad in res:
                st_['evaluations'] += 1
                lab['formatter-value'] += 1
                case = {'formatter': x, 'use_e': use_e}
                st_['nt'].append(case_hash(case))
                if bad:
                    sig = 'formatter:use_e=%d' % use_e
                    cur = st_['fails'].get(sig)
                    if cur is None:
                        st_['fails'][sig] = {'size': 1, 'case': case, 'detail': bad, 'count': 1}
                    else:
                        cur['count'] += 1
    st_['labels'] = dict(lab)
    return st_, {'formatter_values': len(items) * 2}
