"""C12 Number and placement of current unknowns follow from the wire topology."""
import math
import numpy as np
from hypothesis import strategies as st

from .. import gen, build
from ..runner import Result
from ..ref import report, geometry as rgeo

ID = 'C12'
RULE = ('Generated: wire graphs of 1..8 objects (wires with 1..6 segments, some tapered, closed and open arcs, '
        'helices) whose ends are drawn from a small pool of points so that chains, stars, loops, duplicates of '
        'points and several components arise; ends perturbed by <= 0.4e-3 or by 2.5e-3..1e-2 of the shortest '
        'segment; with and without ground (ends on, slightly above and slightly inside the ground tolerance); '
        'all orders, directions and tag styles.  No solve.  Oracle: reference topology from the description: '
        'pulse count formula, contiguous numbering in object order, pulse point = reference joint, its two '
        'segments = the reference segments, geometry table rows.  Non-trivial = junction of degree >= 3, closed '
        'loop, single-segment wire between two junctions, or a perturbed end.')
BUDGET = {'quick': {'examples': 6000, 'wall': 150}, 'thorough': {'examples': 300000, 'wall': 1500}}
ASSUMPTIONS = ['segment end points of tapered wires are read from the model (validated by C13)',
               'end distances between 0.4e-3 and 2.5e-3 of the shortest segment are excluded (rounding decides there)']
LABEL_FLOORS = {'deg>=3': 0.10, 'perturbed-far': 0.05, 'perturbed-near': 0.05, 'ground': 0.2,
                'single-seg-between-junctions': 0.02, 'taper-or-curve-shortest-not-first': 0.02}


@st.composite
def graph_case(draw):
    ground = draw(st.booleans())
    npool = draw(st.integers(2, 5))
    pool = []
    for i in range(npool):
        z = draw(st.floats(0.3, 2.0)) if ground else draw(st.floats(-1, 1))
        pool.append([round(draw(st.floats(-1, 1)), 3), round(draw(st.floats(-1, 1)), 3), round(z, 3)])
    if ground:
        for i in range(draw(st.integers(0, 2))):
            pool.append([round(draw(st.floats(-1, 1)), 3), round(draw(st.floats(-1, 1)), 3), 0.0])
    nobj = draw(st.integers(1, 8))
    objs = []
    for i in range(nobj):
        kind = draw(st.sampled_from(['wire'] * 8 + ['arc', 'helix']))
        if kind == 'wire':
            a = draw(st.integers(0, len(pool) - 1))
            if draw(st.integers(0, 4)) == 0:
                p2 = [round(draw(st.floats(-1, 1)), 3), round(draw(st.floats(-1, 1)), 3),
                      round(draw(st.floats(0.3, 2.0)) if ground else draw(st.floats(-1, 1)), 3)]
            else:
                b = draw(st.integers(0, len(pool) - 2))
                if b >= a:
                    b += 1
                p2 = list(pool[b])
            p1 = list(pool[a])
            if ground and p1[2] == 0.0 and p2[2] == 0.0:
                p2[2] = round(draw(st.floats(0.3, 2.0)), 3)
            n = draw(st.sampled_from([1, 1, 2, 3, 4, 5, 6]))
            if i == 0:
                n = max(n, 2)
            o = dict(type='wire', n=n, p1=p1, p2=p2, r=gen.r6(draw(gen.logf(1e-5, 2e-3))), tag=None,
                     taper=0, tmin=None, tmax=None)
            if n >= 2 and draw(st.integers(0, 5)) == 0:
                o['taper'] = draw(st.integers(1, 3))
            objs.append(o)
        elif kind == 'arc':
            closed = draw(st.booleans())
            a1 = gen.r6(draw(st.floats(-180, 180)))
            a2 = a1 + 360 if closed else gen.r6(a1 + draw(st.floats(20, 300)))
            R = gen.r6(draw(st.floats(0.1, 0.5)))
            objs.append(dict(type='arc', n=draw(st.integers(3, 8)), R=R, a1=a1, a2=a2,
                             r=gen.r6(draw(gen.logf(1e-5, 2e-3))), tag=None))
        else:
            n = draw(st.integers(3, 10))
            rx1 = gen.r6(draw(st.floats(0.05, 0.3)))
            o = dict(type='helix', n=n, len=gen.r6(draw(st.floats(0.2, 1.0)) * draw(st.sampled_from([1, -1]))),
                     turn=gen.r6(draw(st.floats(0.3, 1.5)) * draw(st.sampled_from([1, -1]))),
                     r=gen.r6(draw(gen.logf(1e-5, 2e-3))), rx1=rx1, ry1=rx1, rx2=None, ry2=None, tag=None)
            if draw(st.booleans()):
                # shrinking or growing radius: the shortest segment is not the first one
                f = draw(st.sampled_from([0.2, 0.5, 2.0, 3.0]))
                o['rx2'] = gen.r6(rx1 * f)
                o['ry2'] = gen.r6(rx1 * f)
            objs.append(o)
    case = {'f': 10.0, 'env': {'kind': 'ideal' if ground else 'free'}, 'objs': objs, 'xforms': [], 'scales': [],
            'sources': [{'pulse': 0, 'v': [1.0, 0.0]}], 'loads': []}
    draw(gen.tags(objs))
    # curves are created at the origin; move them so that they sit over ground / connect to pool points
    build.assign_tags(case)
    key = 1
    for o in objs:
        if o['type'] != 'wire':
            if o['type'] == 'arc' and draw(st.booleans()):
                case['xforms'].append({'kind': 'rotate', 'key': float(key), 'v': [gen.r6(draw(st.floats(0, 360))), 0.0, gen.r6(draw(st.floats(0, 360)))], 'tag': o['_tag']})
                key += 1
            tgt = pool[draw(st.integers(0, len(pool) - 1))]
            # translate so that the first end lands on a pool point (makes junctions with wires)
            tmp = {'objs': [dict(o, tag=o['_tag'])], 'xforms': [x for x in case['xforms'] if x.get('tag') == o['_tag']], 'scales': []}
            first = rgeo.transformed(tmp)[0]['pts']
            lowest = first[:, 2].min()
            shift = np.array(tgt) - first[0]
            if ground and lowest + shift[2] < 0.05:
                shift[2] = 0.05 - lowest + draw(st.floats(0, 1))
            case['xforms'].append({'kind': 'translate', 'key': float(key), 'v': [gen.r6(x) for x in shift], 'tag': o['_tag']})
            key += 1
    # one or two straight wires are given somewhere else and moved into place by a translation of their tag (the
    # junctions exist only after the move)
    if draw(st.integers(0, 4)) == 0:
        build.assign_tags(case)
        for o in objs:
            if o['type'] == 'wire' and draw(st.integers(0, 2)) == 0:
                v = [float(draw(st.integers(-3, 3))), float(draw(st.integers(-3, 3))), 0.0 if ground else float(draw(st.integers(-3, 3)))]
                if not any(v):
                    continue
                o['p1'] = [float(a - b) for a, b in zip(o['p1'], v)]
                o['p2'] = [float(a - b) for a, b in zip(o['p2'], v)]
                case['xforms'].append({'kind': 'translate', 'key': float(key), 'v': v, 'tag': o['_tag']})
                key += 1
                case['_moved'] = True
    # perturbations of wire ends
    items = rgeo.transformed(case)
    minseg = 1e9
    for it in items:
        o = it['obj']
        if o['type'] == 'wire':
            L = np.linalg.norm(it['pts'][1] - it['pts'][0])
            if o.get('taper'):
                # lower bound of the shortest tapered segment: max(2.5 r, L / (2^n - 1))
                minseg = min(minseg, max(2.5 * o['r'], L / (2 ** o['n'] - 1)))
            else:
                minseg = min(minseg, L / o['n'])
        else:
            minseg = min(minseg, np.linalg.norm(np.diff(it['pts'], axis=0), axis=1).min())
    case['_minseg_est'] = float(minseg)
    pert = []
    for o in objs:
        if o['type'] != 'wire':
            continue
        for e in ('p1', 'p2'):
            u = draw(st.integers(0, 9))
            if u >= 4:
                continue
            d = np.array([draw(st.floats(-1, 1)), draw(st.floats(-1, 1)), draw(st.floats(-1, 1))])
            nd = np.linalg.norm(d)
            if nd < 1e-3:
                continue
            d /= nd
            if u < 2:
                fac = draw(st.floats(0.05e-3, 0.4e-3))
                kind = 'near'
            else:
                fac = draw(st.floats(2.5e-3, 1e-2))
                kind = 'far'
            if ground and o[e][2] == 0.0:
                d = np.array([0, 0, abs(d[2]) if kind == 'far' else d[2]])
                if abs(d[2]) < 0.2:
                    continue
                d = d / abs(d[2])          # (0, 0, +1) or, inside the tolerance only, (0, 0, -1)
            new = [float(x) for x in (np.array(o[e]) + d * fac * minseg)]
            o[e] = new
            pert.append(kind)
    case['_pert'] = pert
    # the whole structure scaled by the program (the tolerance must follow the scaled segments; the perturbations
    # above keep their size relative to the shortest segment)
    if draw(st.integers(0, 3)) == 0:
        case['scales'].append({'f': draw(st.sampled_from([0.01, 0.1, 0.5, 2.0, 10.0, 100.0])), 'tag': None})
    return case


def strategy(tier):
    return graph_case()


def true_minseg(m):
    return min(s.seg_len for g in m.geo for s in g.segments)


def check(case):
    try:
        m = build.model(case)
    except build.Rejected as e:
        return Result(skipped='rejected: ' + str(e)[:50])
    # reference objects: segment end points from the model for tapered wires only
    robjs = build.ref_objs(case, m)
    ground = build.has_ground(case)
    from ..ref import topology as rtop
    topo = rtop.build(robjs, ground)
    tol = topo.tol
    # knife-edge exclusion: any two distinct ends at a distance in (0.45 tol .. 2.4 tol) except exact
    ends = []
    for w, o in enumerate(robjs):
        ends.append(o['segs'][0])
        ends.append(o['segs'][-1])
    for w, o in enumerate(robjs):
        if np.linalg.norm(o['segs'][0] - o['segs'][-1]) <= 2.4 * tol and o['obj']['type'] == 'wire':
            return Result(skipped='degenerate: wire shorter than the matching tolerance')
    for i in range(len(ends)):
        if ground and 0.45 * tol < abs(ends[i][2]) < 2.4 * tol:
            return Result(skipped='knife-edge: end height near the ground tolerance')
        for j in range(i):
            d = np.linalg.norm(ends[i] - ends[j])
            if 0.85 * tol < d < 2.4 * tol:
                return Result(skipped='knife-edge: end distance near the matching tolerance')
    labels = []
    nt = False
    for j in topo.junctions:
        if len(j) >= 3:
            labels.append('deg>=3')
            nt = True
    for w, o in enumerate(robjs):
        n = len(o['segs']) - 1
        if n == 1 and all((w, e) not in topo.grounded and len(topo.junctions[topo.junc_of[(w, e)]]) >= 2 for e in (0, 1)):
            labels.append('single-seg-between-junctions')
            nt = True
        if (w, 0) in topo.junc_of and (w, 1) in topo.junc_of and topo.junc_of[(w, 0)] == topo.junc_of[(w, 1)]:
            labels.append('self-loop')
            nt = True
        sl = np.linalg.norm(np.diff(o['segs'], axis=0), axis=1)
        if sl[0] > sl.min() * 1.5:
            labels.append('taper-or-curve-shortest-not-first')
    if case.get('scales'):
        labels.append('scaled')
    for k in set(case.get('_pert') or []):
        labels.append('perturbed-' + k)
        nt = True
    if ground:
        labels.append('ground')
    if topo.grounded:
        labels.append('grounded-end')
    labels = sorted(set(labels))
    fails = []
    # the shortest segment really is the one the program uses for its tolerance
    if abs(m.min_seglen - topo.min_seg) > 3e-3 * topo.min_seg:
        fails.append(('tolerance-base:not-shortest-segment',
                      'program takes %.9g as shortest segment, shortest is %.9g' % (m.min_seglen, topo.min_seg)))
    # 1. count formula
    if len(m.pulses) != topo.expected_count:
        fails.append(('count', '%d pulses, formula gives %d (grounded %s, junctions %s)'
                      % (len(m.pulses), topo.expected_count, sorted(topo.grounded),
                         [j for j in topo.junctions if len(j) > 1])))
        return Result(fails=fails, nontrivial=nt, labels=labels)
    # 2. numbering contiguous in object order
    k = 0
    for w, g in enumerate(m.geo):
        for p in g.pulses:
            if p.idx != k:
                fails.append(('numbering', 'object %d: pulse index %d where %d expected' % (w, p.idx, k)))
                return Result(fails=fails, nontrivial=nt, labels=labels)
            k += 1
        if len(g.pulses) != len(topo.per_obj[w]):
            fails.append(('per-object-count', 'object %d has %d pulses, reference %d' % (w, len(g.pulses), len(topo.per_obj[w]))))
            return Result(fails=fails, nontrivial=nt, labels=labels)
    if k != len(m.pulses):
        fails.append(('numbering', 'objects list %d pulses, container has %d' % (k, len(m.pulses))))
    # 3. placement
    for rp in topo.pulses:
        p = m.pulses[rp.idx]
        if np.linalg.norm(np.asarray(p.point) - rp.pt) > 2.5 * tol + 1e-12:
            fails.append(('placement:point', 'pulse %d at %s, reference joint %s' % (rp.idx + 1, list(p.point), list(rp.pt))))
            break
        for leg, seg in zip(rp.legs, p.segs):
            ow, os_, _ = leg
            ref_a, ref_b = robjs[ow]['segs'][os_], robjs[ow]['segs'][os_ + 1]
            if (np.linalg.norm(np.asarray(seg.p1) - ref_a) > 2.5 * tol + 1e-9 * np.linalg.norm(ref_a)
                    or np.linalg.norm(np.asarray(seg.p2) - ref_b) > 2.5 * tol + 1e-9 * np.linalg.norm(ref_b)):
                fails.append(('placement:segment:' + rp.kind, 'pulse %d (%s) is reported with segment %s-%s, reference '
                              'segment %d of object %d: %s-%s' % (rp.idx + 1, rp.kind, list(seg.p1), list(seg.p2),
                                                                  os_, ow, list(ref_a), list(ref_b))))
                break
            # the pulse must sit on a joint of that segment (its real one or, for ground pulses, either)
            if min(np.linalg.norm(rp.pt - ref_a), np.linalg.norm(rp.pt - ref_b)) > 2.5 * tol + 1e-12:
                fails.append(('placement:not-on-joint', 'pulse %d' % (rp.idx + 1)))
                break
        # far ends of the pulse (used by the solver) follow the two segments
        for ce, re_ in ((p.ends[0], rp.e0), (p.ends[1], rp.e1)):
            if np.linalg.norm(np.asarray(ce) - re_) > 4 * tol + 1e-9 * (1 + np.linalg.norm(re_)):
                fails.append(('placement:far-end:' + rp.kind, 'pulse %d far end %s reference %s' % (rp.idx + 1, list(ce), list(re_))))
                break
    # 4. geometry table
    try:
        rep = {}
        L = report.Lines(m.wires_as_mininec())
        report.parse_wires(L, rep)
        rows = [r for g in rep['geometry'] for r in g['rows']]
        if [r['no'] for r in rows] != list(range(1, len(topo.pulses) + 1)):
            fails.append(('table:numbers', 'geometry table lists pulse numbers %s' % [r['no'] for r in rows][:40]))
        else:
            for g, ref in zip(rep['geometry'], topo.per_obj):
                if len(g['rows']) != len(ref):
                    fails.append(('table:block-size', 'block of tag %d has %d rows, reference %d' % (g['tag'], len(g['rows']), len(ref))))
                    break
                for r, rp in zip(g['rows'], ref):
                    scale = max(1e-30, np.abs(rp.pt).max())
                    if np.abs(np.array(r['p']) - rp.pt).max() > 5e-6 * scale + 1.0000001e-6 + 3 * tol:     # fixed-point field: 1e-6 absolute
                        fails.append(('table:coordinates', 'row %d prints %s, joint is %s' % (r['no'], r['p'], list(rp.pt))))
                        break
    except report.ParseError as e:
        fails.append(('table:unparsable', str(e)))
    return Result(fails=fails, nontrivial=nt, labels=labels)
