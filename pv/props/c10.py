"""C10 Far field is the radiation integral of the currents; dBi and V/m agree."""
import math
import numpy as np
from hypothesis import strategies as st

from .. import gen, rules, build, common
from ..runner import Result
from ..ref import fields as rf

ID = 'C10'
RULE = ('Generated: rule-conforming antennas (straight and tapered wires, arcs, helices; free space and ideal '
        'ground; 1..3 sources incl. sources that absorb power), direction grids with drawn start / step / count '
        '(incl. theta = 0, phi and phi + 360), power levels 1e-3..1e6 W and distances 1..1e6 m.  Oracle: (1) complex '
        'E_theta, E_phi vs the reference point-moment sum over the real half segments and their images (1e-4 of '
        'the pattern maximum); (2) vs the exact straight-line integral for segments <= lambda/18 (2 %); (3) dBi of '
        'each polarisation = |E|^2 r^2 / (59.96 P), total = power sum; (4) V/m ~ sqrt(P) / r between two calls; '
        '(5) rows for phi and phi + 360 identical; (6) total gain at theta = 0 the same for every phi.  '
        'Non-trivial = currents with x and y components, ground, or non-default power / distance.')
BUDGET = {'quick': {'examples': 2400, 'wall': 220}, 'thorough': {'examples': 30000, 'wall': 1500}}
ASSUMPTIONS = ['reference topology validated by C12; constants g0 = 29.979221 and 59.96 as documented',
               'dB comparisons only for gains above -200 dB and, for (3), within 60 dB of the maximum']
LABEL_FLOORS = {'env-ideal': 0.3, 'curve': 0.1, 'xy-currents': 0.5, 'grounded-end2': 0.03, 'short-segments': 0.2,
                'power-distance': 0.5}


@st.composite
def case_strategy(draw, big=False):
    lo = draw(st.booleans())
    if draw(st.integers(0, 4)) == 0:
        case = draw(gen.curve_antenna(env_kinds=('free', 'ideal'), nsrc=(1, 3)))
    else:
        case = draw(gen.antenna(env_kinds=('free', 'ideal'), max_wires=4, max_seg=7 if not big else 12, nsrc=(1, 3),
                                taper_prob=0.1, seg_hi=(1 / 19.0 if lo else 1 / 10.0)))
    # (negative zenith angles are accepted: an elevation cut over the top, -theta at phi is theta at phi + 180)
    t0 = draw(st.sampled_from([0.0, 0.0, gen.r6(draw(st.floats(0, 60))), -gen.r6(draw(st.floats(1, 85)))]))
    case['theta'] = [t0, gen.r6(draw(st.floats(1, 30))), draw(st.integers(1, 6))]
    case['phi'] = [gen.r6(draw(st.floats(-180, 180))), gen.r6(draw(st.floats(5, 120))), draw(st.integers(1, 5))]
    case['pwr'] = gen.r6(draw(gen.logf(1e-3, 1e6))) if draw(st.booleans()) else None
    # (a power level may be requested without a distance: the field is then not divided by a distance but still
    # scaled to that power - the RD = 0 case of the original program)
    case['dist'] = gen.r6(draw(gen.logf(1e-2, 1e6))) if draw(st.integers(0, 4)) else None
    case['pwr2'] = gen.r6(draw(gen.logf(1e-3, 1e6)))
    case['dist2'] = gen.r6(draw(gen.logf(1e-2, 1e6)))
    # options that must not influence any number: time measurement
    case['timing'] = draw(st.integers(0, 3)) == 0
    # far-field requests made on the same solution before the one that is checked (0..2)
    case['warm'] = draw(st.sampled_from([0, 0, 1, 1, 2]))
    return case


def strategy(tier):
    return case_strategy(big=tier == 'thorough')


def check(case):
    why = rules.check(case)
    if why:
        return Result(skipped=why)
    labels = common.base_labels(case)
    if case.get('timing'):
        labels.append('timing-on')
    try:
        m = common.solved(case)
    except build.Rejected as e:
        return Result(skipped='rejected: ' + str(e)[:50])
    if not (m.power > 0):
        return Result(skipped='sources deliver no net power (gain undefined)')
    topo = build.ref_topology(case, m)
    ground = build.has_ground(case)
    A = build.mm.Angle
    k = 2 * math.pi * case['f'] / 299.8
    lam = 299.8 / case['f']
    I = np.array(m.current)
    th, ph = case['theta'], case['phi']
    if th[0] < 0:
        labels.append('negative-zenith-angles')
    if ground:
        # upper hemisphere only
        while th[0] + (th[2] - 1) * th[1] > 89.5 and th[2] > 1:
            th = [th[0], th[1], th[2] - 1]
        if th[0] > 89.5:
            th = [0.0, th[1], 1]
    nt = False
    if any(o['obj']['type'] != 'wire' for o in topo.objs):
        labels.append('curve')
    dirs = np.array([p.e1 - p.e0 for p in topo.pulses])
    if (np.abs(dirs[:, 0]) > 1e-9).any() and (np.abs(dirs[:, 1]) > 1e-9).any():
        labels.append('xy-currents')
        nt = True
    if ground:
        nt = True
    if any(e == 1 for (_, e) in topo.grounded):
        labels.append('grounded-end2')
    if any(s.power < 0 for s in m.sources):
        labels.append('absorbing-source')
    maxseg = max(max(p.l0, p.l1) for p in topo.pulses)
    short = maxseg <= lam / 18.0 * (1 + 1e-9)
    if short:
        labels.append('short-segments')
    fails = []
    pw, dist = case['pwr'], case['dist']
    labels.append('power-distance')
    nt = True
    kw = {'dist': dist} if dist else {}
    if not dist:
        labels.append('no-distance')
        dist = 1.0
    if pw is not None:
        kw['pwr'] = pw
    for w_ in range(case.get('warm', 0)):
        # earlier requests on the same solution (another grid, no power level) must not matter
        m.compute_far_field(A(10.0 + 5 * w_, 20.0, 2), A(5.0, 40.0, 3))
    if case.get('warm'):
        labels.append('earlier-requests')
    m.compute_far_field(A(*th), A(*ph), **kw)
    ff = m.far_field
    # gain is indexed (theta, phi, column); the field and angle arrays (phi, theta)
    et, ep = np.array(ff.e_theta).T, np.array(ff.e_phi).T
    gain = np.array(ff.gain)
    zen, azi = np.array(ff.zen).T, np.array(ff.azi).T
    if not (et.shape == ep.shape == zen.shape == azi.shape == gain.shape[:2]):
        return Result(fails=[('far-field:array-shapes', 'e_theta %s, e_phi %s, zen %s, azi %s, gain %s for %d x %d directions'
                              % (np.shape(ff.e_theta), np.shape(ff.e_phi), np.shape(ff.zen), np.shape(ff.azi), gain.shape, th[2], ph[2]))],
                      nontrivial=True, labels=labels)
    # the power the sources really deliver, from the voltages of the case and the solved currents (the far field is
    # normalised with it; the program's own total is not taken on trust)
    Vs_ = [complex(*s_['v']) for s_ in case['sources']]
    p_true = sum(0.5 * (v_ * np.conj(I[s_['_idx']])).real for v_, s_ in zip(Vs_, case['sources']))
    app_ = sum(0.5 * abs(v_ * I[s_['_idx']]) for v_, s_ in zip(Vs_, case['sources']))
    if abs(m.power - p_true) > 1e-9 * app_:
        return Result(fails=[('total-power', 'the program normalises with %r W, the sources deliver Re(sum V I*)/2 = %r W' % (m.power, p_true))],
                      nontrivial=True, labels=labels)
    P = pw if pw is not None else p_true
    scale = math.sqrt(P / p_true) / dist
    # (1), (2) reference radiation integral
    ref_p = np.zeros(et.shape, complex)
    ref_q = np.zeros(et.shape, complex)
    ex_p = np.zeros(et.shape, complex)
    ex_q = np.zeros(et.shape, complex)
    it = np.nditer(zen, flags=['multi_index'])
    for _ in it:
        ix = it.multi_index
        a, b = rf.far_field(topo, I, k, float(zen[ix]), float(azi[ix]), ground, 'point')
        ref_p[ix], ref_q[ix] = a * scale, b * scale
        if short:
            a, b = rf.far_field(topo, I, k, float(zen[ix]), float(azi[ix]), ground, 'exact')
            ex_p[ix], ex_q[ix] = a * scale, b * scale
    # pattern maximum over the whole sphere (upper hemisphere over ground), from a coarse global grid
    m.compute_far_field(A(0, 15, 7 if ground else 13), A(0, 30, 12), **kw)
    mx = max(np.abs(np.array(m.far_field.e_theta)).max(), np.abs(np.array(m.far_field.e_phi)).max(),
             np.abs(ref_p).max(), np.abs(ref_q).max())
    gmax_global = np.array(m.far_field.gain)[..., 2].max()
    if mx > 0:
        err = max(np.abs(et - ref_p).max(), np.abs(ep - ref_q).max()) / mx
        if err > 1e-4:
            fails.append(('radiation-integral:point-rule:' + ('ground' if ground else 'free'),
                          'reported far field differs from the point-moment sum by %.3g of the pattern maximum' % err))
        if short:
            err = max(np.abs(et - ex_p).max(), np.abs(ep - ex_q).max()) / mx
            if err > 0.02:
                sig = 'radiation-integral:exact'
                bent = [p for p in topo.pulses if p.kind != 'gnd' and
                        (p.pt - p.e0) @ (p.e1 - p.pt) < 0.99 * p.l0 * p.l1]
                # is the deviation that of the documented moment-at-the-pulse-point rule itself (reference point
                # sum vs reference exact integral of the same currents), the program agreeing with that rule?
                rule_dev = max(np.abs(ref_p - ex_p).max(), np.abs(ref_q - ex_q).max()) / mx
                # (the cap only bounds what is attributed to the finding: that the program follows the rule is checked
                # separately above at 1e-4.  Low horizontal wires over ground radiate the small difference of wire and
                # image: the rule's phase error of k l / 4 per half segment is then large against that maximum - 24 %
                # observed for 3 pulses at 0.008 wavelength height)
                if abs(err - rule_dev) <= 2e-4 and err <= 0.5:
                    sig += ':deviation-of-the-point-rule-itself'
                fails.append((sig, 'reported far field differs from the exact integral by %.3g of the maximum '
                              '(segments <= lambda/18, %d pulses, %d on bends)' % (err, len(topo.pulses), len(bent))))
    # (3) dBi vs V/m
    gmax = max(gain[..., 2].max(), gmax_global)
    for col, e in ((0, et), (1, ep)):
        lin = np.abs(e) ** 2 * dist ** 2 / (59.96 * P)
        msk = (gain[..., col] > -200) & (gain[..., col] > gmax - 60)
        if msk.any():
            d = np.abs(10 * np.log10(lin[msk]) - gain[..., col][msk]).max()
            if d > 2e-3:
                fails.append(('dbi-vs-vm:' + ('vertical' if col == 0 else 'horizontal'),
                              'gain differs from |E|^2 r^2 / (59.96 P) by %.3g dB' % d))
    tot = 10 ** (gain[..., 0] / 10) * (gain[..., 0] > -900) + 10 ** (gain[..., 1] / 10) * (gain[..., 1] > -900)
    msk = (gain[..., 2] > gmax - 60) & (gain[..., 2] > -200)
    if msk.any():
        d = np.abs(10 * np.log10(tot[msk]) - gain[..., 2][msk]).max()
        if d > 1e-6:
            fails.append(('total-not-power-sum', 'total gain differs from the power sum of vertical and horizontal by %.3g dB' % d))
    # (4) scaling with power and distance
    m.compute_far_field(A(*th), A(*ph), pwr=case['pwr2'], dist=case['dist2'])
    et2, ep2 = np.array(m.far_field.e_theta).T, np.array(m.far_field.e_phi).T
    want = math.sqrt(case['pwr2'] / P) * dist / case['dist2']
    if mx > 0:
        err = max(np.abs(et2 - et * want).max(), np.abs(ep2 - ep * want).max()) / (mx * want)
        if err > 1e-9:
            fails.append(('vm-scaling', 'V/m values do not scale with sqrt(P)/r: relative error %.3g' % err))
        g2 = np.array(m.far_field.gain)
        if np.abs(g2 - gain)[gain > -200].max() > 1e-9 if (gain > -200).any() else False:
            fails.append(('dbi-depends-on-power', 'dBi pattern changes with the requested power / distance'))
    # (5) phi and phi + 360
    m.compute_far_field(A(*th), A(ph[0], 360.0, 2))
    g = np.array(m.far_field.gain)
    a, b = g[:, 0, :], g[:, 1, :]
    # rounding of cos / sin(phi + 360) moves deep nulls by micro-dB: compare within 60 dB of the maximum
    msk = (a > -200) & (a > gmax - 60)
    if msk.any() and np.abs(a - b)[msk].max() > 1e-5:
        fails.append(('phi-plus-360', 'rows for phi and phi + 360 differ by %.3g dB' % np.abs(a - b)[msk].max()))
    # (6) zenith
    m.compute_far_field(A(0, 0, 1), A(ph[0], 37.0, 6))
    g = np.array(m.far_field.gain)[0, :, 2]
    if g.max() > max(-200, gmax - 60) and g.max() - g.min() > 1e-5:
        fails.append(('zenith-depends-on-phi', 'total gain at theta = 0 varies by %.3g dB with phi' % (g.max() - g.min())))
    return Result(fails=fails, nontrivial=nt, labels=sorted(set(labels)))
