"""C13 Segmentation tiles each object; tapers, arcs, helices, transforms as documented."""
import math
import numpy as np
from hypothesis import strategies as st

from .. import gen, build
from ..runner import Result
from ..ref import geometry as rgeo

ID = 'C13'
RULE = ('Generated: 1..3 objects per case: plain wires (1..200 segments), tapered wires (end 1 / 2 / both, '
        'min/max limits drawn around the admissible values), arcs (3..200 segments, any angle pair up to a full '
        'circle, negative spans), helices (either sign of length and turn length, four radii), followed by 0..6 '
        'rotate/translate options (whole structure or one tag, any sort keys) and 0..2 scale options.  Oracle: '
        'validity predicates of the statement evaluated on geobj.segments and the reference implementation of '
        'the documented shapes and transformation order.  Non-trivial = taper with a binding limit, helix with '
        'tapered radii or a negative parameter, or >= 2 transformations.  AssertionErrors of the taper code are '
        'outside the accepted domain (counted; judged by C20).')
BUDGET = {'quick': {'examples': 8000, 'wall': 150}, 'thorough': {'examples': 400000, 'wall': 1500}}
ASSUMPTIONS = ['tolerances: 1e-9 relative for tiling/shape, 1e-6 relative for taper limits (probe: 1e-9 too tight)']
LABEL_FLOORS = {'taper': 0.2, 'arc': 0.1, 'helix': 0.1, 'xforms>=2': 0.2, 'multi-angle-rotation': 0.1,
                'xforms>=4': 0.05, 'tagged-xform': 0.1, 'scale': 0.1, 'helix-4-radii': 0.03}


@st.composite
def one_object(draw):
    kind = draw(st.sampled_from(['wire', 'taper', 'taper', 'arc', 'helix']))
    if kind in ('wire', 'taper'):
        n = draw(st.one_of(st.integers(1, 12), st.integers(1, 200)))
        p1 = [gen.r6(draw(st.floats(-50, 50))) for _ in range(3)]
        d = np.array([draw(st.floats(-1, 1)) for _ in range(3)])
        if np.linalg.norm(d) < 1e-2:
            d = np.array([0.0, 0.0, 1.0])
        d /= np.linalg.norm(d)
        L = draw(gen.logf(1e-2, 100.0))
        p2 = [gen.r6(a + b * L) for a, b in zip(p1, d)]
        L = float(np.linalg.norm(np.array(p2) - np.array(p1)))
        r = gen.r6(draw(gen.logf(1e-6, 1.0)) * L / n / 2.5)
        o = dict(type='wire', n=n, p1=p1, p2=p2, r=r, tag=None, taper=0, tmin=None, tmax=None)
        if kind == 'taper':
            # (mostly 2..24 segments; a sixth of the tapered wires has up to 160, where the natural shortest segment
            # L / 2^n is below the rounding error of the wire length)
            n = o['n'] = draw(st.one_of(st.integers(2, 24), st.integers(2, 24), st.integers(2, 24), st.integers(2, 24),
                                        st.integers(2, 24), st.integers(25, 160)))
            o['r'] = r = gen.r6(draw(gen.logf(1e-6, 1.0)) * L / n / 2.5)
            o['taper'] = draw(st.integers(1, 3))
            avg = L / n
            # natural shortest segment of an unconstrained taper
            if o['taper'] == 3:
                npieces = 2 * ((1 << (n // 2)) - 1) + ((1 << (n // 2)) if n & 1 else 0)
            else:
                npieces = (1 << n) - 1
            nat = max(L / npieces, 2.5 * r)
            mode = draw(st.sampled_from(['none', 'min', 'max', 'both']))
            if mode in ('min', 'both'):
                o['tmin'] = gen.r6(draw(st.sampled_from([nat * draw(st.floats(0.2, 3.0)), avg * draw(st.floats(0.05, 0.999))])))
            if mode in ('max', 'both'):
                lo = max(avg * 1.0001, (o['tmin'] or 0) * 1.0001, 2.5 * r * 1.0001)
                o['tmax'] = gen.r6(lo * draw(st.sampled_from([1.0, draw(st.floats(1.0, 1.3)), draw(st.floats(1.0, 8.0))])) * 1.000001)
        return o
    if kind == 'arc':
        n = draw(st.one_of(st.integers(3, 12), st.integers(3, 200)))
        a1 = gen.r6(draw(st.floats(-720, 720)))
        span = draw(st.one_of(st.floats(-700, 360), st.sampled_from([360.0, -360.0, 90.0, 180.0, 1e-3])))
        if abs(span) < 0.01:
            span = 10.0
        a2 = a1 + gen.r6(span)
        return dict(type='arc', n=n, R=gen.r6(draw(gen.logf(1e-2, 100))), a1=a1, a2=a2,
                    r=gen.r6(draw(gen.logf(1e-6, 1e-3))), tag=None)
    sg = st.sampled_from([1, -1])
    length = gen.r6(draw(gen.logf(1e-3, 50)) * draw(sg))
    turn = gen.r6(draw(gen.logf(1e-2, 20)) * draw(sg))
    nturns = abs(length) / abs(turn)
    nmin = max(3, int(math.ceil(min(nturns * 3, 3))))
    n = draw(st.integers(nmin, 200))
    rx1 = gen.r6(draw(gen.logf(1e-2, 10)))
    o = dict(type='helix', n=n, len=length, turn=turn, r=gen.r6(draw(gen.logf(1e-6, 1e-3))), rx1=rx1,
             ry1=gen.r6(rx1 * draw(st.sampled_from([1.0, 0.5, 0.7, 2.0]))), rx2=None, ry2=None, tag=None)
    if draw(st.booleans()):
        o['rx2'] = gen.r6(rx1 * draw(st.sampled_from([1.0, 0.3, 0.6, 1.7, 3.0])))
        o['ry2'] = gen.r6(o['ry1'] * draw(st.sampled_from([1.0, 0.25, 0.5, 2.0, 4.0])))
    return o


@st.composite
def transforms(draw, case, maxn=6):
    tagsl = [o['_tag'] for o in case['objs']]
    n = draw(st.sampled_from([0, 0, 1, 2, 3, 4, 5, maxn]))
    # (sort keys may coincide: a third of the cases draws from three values only)
    keys = draw(st.lists(st.integers(-20, 20) if draw(st.integers(0, 2)) else st.integers(-1, 1), min_size=n, max_size=n,
                         unique=False))
    xf = []
    for k in keys:
        kind = draw(st.sampled_from(['rotate', 'translate']))
        tag = draw(st.sampled_from([None, None] + tagsl))
        if kind == 'rotate':
            nz = draw(st.sampled_from([1, 2, 3]))
            axes = draw(st.permutations([0, 1, 2]))[:nz]
            v = [0.0, 0.0, 0.0]
            for a in axes:
                v[a] = gen.r6(draw(st.floats(-360, 360)))
        else:
            v = [gen.r6(draw(st.floats(-100, 100))) for _ in range(3)]
        xf.append({'kind': kind, 'key': float(k) + draw(st.sampled_from([0.0, 0.5, 0.25])), 'v': v, 'tag': tag})
    case['xforms'] = xf
    sc = []
    for i in range(draw(st.sampled_from([0, 0, 1, 2]))):
        sc.append({'f': gen.r6(draw(gen.logf(0.01, 100))), 'tag': draw(st.sampled_from([None, None] + tagsl))})
    case['scales'] = sc
    return case


@st.composite
def grounded_case(draw):
    """objects standing on a ground plane (the program then looks for ends on the plane and puts them exactly onto
    it): half circles and quarter circles on their feet, wires rising from the plane; moved about in the plane only"""
    objs = []
    for i in range(draw(st.integers(1, 2))):
        if draw(st.integers(0, 2)):
            a1, a2 = draw(st.sampled_from([(0.0, 180.0), (0.0, 90.0), (180.0, 0.0), (90.0, 180.0), (0.0, 120.0)]))
            objs.append(dict(type='arc', n=draw(st.integers(3, 24)), R=gen.r6(draw(gen.logf(1e-2, 100))), a1=a1, a2=a2,
                             r=gen.r6(draw(gen.logf(1e-6, 1e-3))), tag=None))
        else:
            n = draw(st.integers(1, 12))
            L = draw(gen.logf(1e-2, 100.0))
            foot = [gen.r6(draw(st.floats(-50, 50))), gen.r6(draw(st.floats(-50, 50))), 0.0]
            top = [gen.r6(foot[0] + L * draw(st.floats(-0.5, 0.5))), gen.r6(foot[1] + L * draw(st.floats(-0.5, 0.5))), gen.r6(L)]
            o = dict(type='wire', n=n, p1=foot, p2=top, r=gen.r6(draw(gen.logf(1e-6, 1.0)) * L / n / 2.5), tag=None, taper=0,
                     tmin=None, tmax=None)
            if draw(st.booleans()):
                o['p1'], o['p2'] = o['p2'], o['p1']
            objs.append(o)
    case = {'f': 10.0, 'env': {'kind': 'ideal'}, 'objs': objs, 'xforms': [], 'scales': [],
            'sources': [{'pulse': 0, 'v': [1.0, 0.0]}], 'loads': []}
    draw(gen.tags(objs))
    build.assign_tags(case)
    tagsl = [o['_tag'] for o in objs]
    for k in range(draw(st.integers(0, 3))):
        tag = draw(st.sampled_from([None, None] + tagsl))
        if draw(st.booleans()):
            v = [0.0, 0.0, gen.r6(draw(st.floats(-360, 360)))]
            case['xforms'].append({'kind': 'rotate', 'key': float(k), 'v': v, 'tag': tag})
        else:
            v = [gen.r6(draw(st.floats(-100, 100))), gen.r6(draw(st.floats(-100, 100))), 0.0]
            case['xforms'].append({'kind': 'translate', 'key': float(k), 'v': v, 'tag': tag})
    if draw(st.integers(0, 2)) == 0:
        case['scales'].append({'f': gen.r6(draw(gen.logf(0.01, 100))), 'tag': draw(st.sampled_from([None, None] + tagsl))})
    return case


@st.composite
def seg_case(draw):
    if draw(st.integers(0, 7)) == 0:
        return draw(grounded_case())
    objs = [draw(one_object()) for _ in range(draw(st.integers(1, 3)))]
    case = {'f': 10.0, 'env': {'kind': 'free'}, 'objs': objs, 'xforms': [], 'scales': [],
            'sources': [{'pulse': 0, 'v': [1.0, 0.0]}], 'loads': []}
    draw(gen.tags(objs))
    build.assign_tags(case)
    draw(transforms(case))
    return case


def strategy(tier):
    return seg_case()


def check(case):
    labels = []
    nt = False
    if case['env']['kind'] != 'free':
        labels.append('standing-on-ground')
    xf = case.get('xforms') or []
    sc = case.get('scales') or []
    if len(xf) + len(sc) >= 2:
        labels.append('xforms>=2')
        nt = True
    if len(xf) >= 4:
        labels.append('xforms>=4')
    if any(x['kind'] == 'rotate' and sum(1 for a in x['v'] if a) >= 2 for x in xf):
        labels.append('multi-angle-rotation')
    if any(x.get('tag') is not None for x in xf + sc):
        labels.append('tagged-xform')
    if sc:
        labels.append('scale')
    # a model needs at least one pulse for the default source: make sure pulse 1 exists
    try:
        m = build.model(case)
    except build.Rejected as e:
        msg = str(e)
        if msg.startswith('taper assertion'):
            # the tapering code stops with an assertion instead of a segmentation or the documented fall-back to
            # equal segments (the repaired tree never does this for generated wires)
            return Result(fails=[('taper:assertion', 'the tapering code fails an internal assertion (%s) for %s'
                                  % (msg, [dict(o_) for o_ in case['objs'] if o_.get('taper')][:2]))], nontrivial=True, labels=labels)
        return Result(skipped='rejected: ' + msg[:40])
    items = rgeo.transformed(case)
    fails = []
    for it, g in zip(items, m.geo):
        o = it['obj']
        segs = g.segments
        n = o['n']
        scale_tot = 1.0
        for s in sc:
            if s.get('tag') is None or s['tag'] == it['tag']:
                scale_tot *= s['f']
        if g.tag != it['tag']:
            fails.append(('order', 'object order: tag %s where reference has %s' % (g.tag, it['tag'])))
            break
        if len(segs) != n:
            fails.append(('count:' + o['type'], '%d segments for n=%d' % (len(segs), n)))
            continue
        pts = np.array([s.p1 for s in segs] + [segs[-1].p2], float)
        lens = np.array([s.seg_len for s in segs], float)
        ref = it['pts']
        span = max(float(np.abs(ref).max()), float(np.linalg.norm(ref[-1] - ref[0])), 1e-300)
        L = float(np.linalg.norm(ref[-1] - ref[0]))
        tol = 1e-9 * span + 1e-300
        # radius
        if abs(g.r_orig - it['r']) > 1e-12 * it['r']:
            fails.append(('radius-scale', 'radius %r, reference %r' % (g.r_orig, it['r'])))
        # tiling
        gap = max(float(np.linalg.norm(np.asarray(segs[i].p2) - np.asarray(segs[i + 1].p1))) for i in range(n - 1)) if n > 1 else 0.0
        if gap > tol:
            fails.append(('tiling:gap:' + o['type'], 'gap %g between consecutive segments' % gap))
        if np.linalg.norm(pts[0] - ref[0]) > tol or np.linalg.norm(pts[-1] - ref[-1]) > tol:
            fails.append(('tiling:ends:' + o['type'], 'object runs %s..%s, reference %s..%s' % (list(pts[0]), list(pts[-1]), list(ref[0]), list(ref[-1]))))
        geo_len = np.linalg.norm(np.diff(pts, axis=0), axis=1)
        if (lens <= 0).any() or (geo_len <= 0).any():
            fails.append(('length:nonpositive:' + o['type'], 'segment lengths %s' % lens[:8]))
            continue
        if np.abs(geo_len - lens).max() > 1e-9 * lens.max() + 1e-6 * lens.min() * 0 + tol:
            fails.append(('length:attr-vs-points:' + o['type'], 'seg_len differs from the distance of its end points by %g' % np.abs(geo_len - lens).max()))
        if o['type'] == 'wire':
            # collinear, ordered along the wire
            d = (ref[-1] - ref[0]) / L
            off = pts - ref[0]
            along = off @ d
            perp = np.linalg.norm(off - np.outer(along, d), axis=1).max()
            if perp > 1e-9 * span:
                fails.append(('wire:not-collinear', 'points leave the straight line by %g' % perp))
            if o.get('taper') and g.segtype:
                labels.append('taper')
                r = it['r']
                tmin = max(2.5 * r, (o.get('tmin') or 0.0) * scale_tot * 0 + (o.get('tmin') or 0.0))
                tmax = o.get('tmax')
                # limits are given in unscaled coordinates of the option and applied after scaling:
                # the program tapers the scaled wire with the limits as given
                lo = max(2.5 * r, o.get('tmin') or 0.0)
                # coordinates far from the origin carry a rounding error of a few ulps of the coordinate
                # (the segment ends are accumulated: the error grows with the number of segments, and the last segment
                # takes up what is left to the given end point)
                ulp = (8 + 2 * n) * np.finfo(float).eps * span
                if lens.min() < lo * (1 - 1e-6) - ulp:
                    fails.append(('taper:below-min', 'shortest segment %g < max(2.5 r, min) = %g' % (lens.min(), lo)))
                if tmax is not None and lens.max() > tmax * (1 + 1e-6) + ulp:
                    fails.append(('taper:above-max', 'longest segment %g > max %g' % (lens.max(), tmax)))
                tp = o['taper']
                seq = lens if tp == 1 else lens[::-1]
                if tp in (1, 2):
                    ratio = seq[1:] / seq[:-1]
                    if ratio.max() > 2.1 or ratio.min() < 1 - 1e-6:
                        fails.append(('taper:ratio:%d' % tp, 'length ratios away from the tapered end: min %g max %g' % (ratio.min(), ratio.max())))
                else:
                    h = (n + 1) // 2
                    a = lens[:h]
                    b = lens[::-1][:h]
                    if np.abs(a - b).max() > 1e-6 * lens.max():
                        fails.append(('taper:both:asymmetric', 'lengths from end 1 %s, from end 2 %s' % (a[:6], b[:6])))
                    ratio = a[1:] / a[:-1] if h > 1 else np.array([1.0])
                    if ratio.max() > 2.1 or ratio.min() < 1 - 1e-6:
                        fails.append(('taper:ratio:3', 'length ratios from the end towards the middle: min %g max %g' % (ratio.min(), ratio.max())))
                if (o.get('tmin') and lens.min() <= lo * (1 + 1e-6)) or (tmax and lens.max() >= tmax * (1 - 1e-3)):
                    labels.append('taper-binding-limit')
                    nt = True
                # mirror relation: tapering from end 2 is the mirror image of tapering the reversed wire from end 1
                if tp == 2:
                    c2 = dict(case, objs=[dict(o, p1=o['p2'], p2=o['p1'], taper=1, tag=None)], xforms=[], scales=[],
                              sources=[{'pulse': 0, 'v': [1.0, 0.0]}])
                    try:
                        m2 = build.model(c2)
                        l2 = np.array([s.seg_len for s in m2.geo[0].segments])
                        if len(l2) == n and not sc and np.abs(l2[::-1] - lens).max() > 1e-9 * lens.max() + ulp:
                            fails.append(('taper:mirror', 'end-2 taper %s is not the mirror of end-1 taper %s' % (lens[:5], l2[::-1][:5])))
                    except build.Rejected:
                        pass
            else:
                if o.get('taper'):
                    labels.append('taper-fallback-equal')
                if np.abs(lens - L / n).max() > 1e-9 * L / n * max(1, n ** 0.5):
                    fails.append(('wire:unequal', 'plain wire segment lengths deviate from L/n by %g' % np.abs(lens - L / n).max()))
                exp = rgeo.equal_segments(ref[0], ref[-1], n)
                if np.abs(pts - exp).max() > 1e-9 * span:
                    fails.append(('wire:points', 'segment ends deviate from equal division by %g' % np.abs(pts - exp).max()))
        else:
            labels.append(o['type'])
            if np.abs(pts - ref).max() > 1e-9 * span:
                fails.append(('%s:points' % o['type'], 'segment ends deviate from the documented curve (after the '
                              'documented transformations) by %g of %g' % (np.abs(pts - ref).max(), span)))
            if o['type'] == 'helix':
                if o.get('rx2') is not None and (o['rx2'] != o['rx1'] or o['ry2'] != o['ry1']):
                    nt = True
                    if len({o['rx1'], o['ry1'], o['rx2'], o['ry2']}) == 4:
                        labels.append('helix-4-radii')
                if o['len'] < 0 or o['turn'] < 0:
                    nt = True
                    labels.append('helix-negative')
    return Result(fails=fails, nontrivial=nt, labels=sorted(set(labels)))
