"""C18 Generated BASIC-MININEC input describes the same antenna."""
import math
import numpy as np
from hypothesis import strategies as st

from .. import gen, rules, build, common
from ..runner import Result
from ..ref import basicreader as br

ID = 'C18'
RULE = ('Generated: models expressible in BASIC MININEC: straight wires plus tapered wires, arcs and helices (emulated '
        'by one-segment wires), in a third of the cases with wire ends moved by 0.05e-3..0.4e-3 of the shortest segment so that '
        'junctions hold within the matching tolerance only (numbering and positions compared, not impedances), 1..3 sources with complex voltages, either impedance-type loads (lumped complex, '
        'skin effect, insulation) or Laplace-type loads (series RLC, trap, Laplace), free space / ideal ground / 1..3 '
        'media with either boundary and radials, BASIC versions 9 / 12 / 13, optional dBi or V/m pattern section '
        '(power, distance) and near-field section (power).  Oracle: an independent reader consumes the text prompt '
        'by prompt (every answer of the right type, nothing left over); the description it yields equals the '
        'model: frequency, environment and media, every (emulated) wire with end points, radius and segment count, ends that the model joins written with '
        'identical coordinates (BASIC joins on equality only), '
        'every source with pulse number, magnitude and phase in degrees, every load with pulse number and value / '
        'coefficients (micro-units for version 9), pattern and near-field requests; a model built from the read-back '
        'description through the API has the same pulses at the same positions and the same feed impedances.  '
        'Non-trivial = >= 2 sources with different phases, an emulated object, Laplace loads with version != 9, '
        'or >= 2 media.')
BUDGET = {'quick': {'examples': 1200, 'wall': 200}, 'thorough': {'examples': 40000, 'wall': 1500}}
ASSUMPTIONS = ['prompt order as documented in the comments of the writer and in the stored .mini files (reader self-test)',
               'numbers are written with six digits (%g): 1e-5 relative']
LABEL_FLOORS = {'emulated': 0.25, 'multi-source': 0.4, 'laplace-loads': 0.1, 'impedance-loads': 0.15, 'env-real': 0.15,
                'version!=9': 0.4, 'near-section': 0.2, 'vm-section': 0.1, 'junction-within-tolerance': 0.15}


class Args:
    def __init__(self, v):
        self.mininec_version = v


@st.composite
def case_strategy(draw, big=False):
    if draw(st.integers(0, 3)) == 0:
        case = draw(gen.curve_antenna(env_kinds=('free', 'ideal', 'real'), nsrc=(1, 3)))
    else:
        case = draw(gen.antenna(env_kinds=('free', 'ideal', 'real'), max_wires=4, max_seg=5 if not big else 8, nsrc=(1, 3),
                                taper_prob=0.25))
    topo, objs = gen.stand_in_topology(case)
    npl = len(topo.pulses)
    if draw(st.integers(0, 2)) == 0:
        # BASIC joins wires by identical coordinates only: ends that the program joins within its tolerance
        case['jittered'] = draw(gen.jitter_ends(case))
    lds = []
    fam = draw(st.sampled_from(['none', 'z', 'z', 's']))
    if fam == 'z':
        for i in range(draw(st.integers(1, 3))):
            k = draw(st.sampled_from(['z', 'z', 'skin', 'ins']))
            if k == 'z':
                l = draw(gen.lumped_load(kinds=('z',)))
                l['attach'] = draw(st.lists(st.integers(0, npl - 1), min_size=1, max_size=3, unique=draw(st.integers(0, 3)) != 0))     # (a pulse named twice carries the load twice, in series)
                lds.append(l)
            elif k == 'skin' and not any(x['kind'].startswith('skin') for x in lds):
                lds.append({'kind': 'skin_c', 'v': gen.r6(draw(gen.logf(1e4, 1e8))), 'tag': None})
            elif k == 'ins' and not any(x['kind'] == 'ins' for x in lds):
                rr = max(o['obj']['r'] for o in objs)
                lds.append({'kind': 'ins', 'radius': gen.r6(rr * draw(st.floats(1.2, 3))), 'eps': gen.r6(draw(st.floats(1.0, 6.0))), 'tag': None})
    elif fam == 's':
        for i in range(draw(st.integers(1, 3))):
            l = draw(gen.lumped_load(kinds=('rlc', 'trap', 'laplace')))
            l['attach'] = draw(st.lists(st.integers(0, npl - 1), min_size=1, max_size=3, unique=draw(st.integers(0, 3)) != 0))     # (a pulse named twice carries the load twice, in series)
            lds.append(l)
    case['loads'] = lds
    case['version'] = draw(st.sampled_from(['9', '12', '13']))
    sec = draw(st.sampled_from(['none', 'dbi', 'vm', 'near', 'dbi+near', 'vm+near']))
    case['sections'] = sec
    case['theta'] = [gen.r6(draw(st.floats(0, 40))), gen.r6(draw(st.floats(1, 20))), draw(st.integers(1, 19))]
    case['phi'] = [gen.r6(draw(st.floats(-180, 180))), gen.r6(draw(st.floats(1, 90))), draw(st.integers(1, 37))]
    case['ffpwr'] = gen.r6(draw(gen.logf(1e-3, 1e6))) if draw(st.booleans()) else None
    case['ffdist'] = gen.r6(draw(gen.logf(1, 1e6)))
    case['near'] = [gen.r6(draw(st.floats(-5, 5))) for _ in range(3)] + [gen.r6(draw(st.floats(0.01, 2))) for _ in range(3)] + \
                   [draw(st.integers(1, 9)) for _ in range(3)]
    case['nfpwr'] = gen.r6(draw(gen.logf(1e-3, 1e6))) if draw(st.booleans()) else None
    case['gainfile'] = draw(st.sampled_from([None, None, 'GAIN.DAT']))
    return case


def strategy(tier):
    return case_strategy(big=tier == 'thorough')


def c5(a, b, rel=1.1e-5, ab=0.0):
    return abs(a - b) <= rel * max(abs(a), abs(b)) + ab


def check(case):
    labels = common.base_labels(case)
    if case.get('jittered'):
        labels.append('junction-within-tolerance')
    try:
        m = build.model(case)
    except build.Rejected as e:
        return Result(skipped='rejected: ' + str(e)[:40])
    A = build.mm.Angle
    sec = case['sections']
    kw = {}
    th, ph = case['theta'], case['phi']
    if 'dbi' in sec or 'vm' in sec:
        kw.update(azi=A(*ph), zen=A(*th))
        if 'vm' in sec:
            labels.append('vm-section')
            kw.update(ff_abs=True, ff_dist=case['ffdist'], pwr_ff=case['ffpwr'])
        if case['gainfile']:
            kw['gainfile'] = case['gainfile']
    if 'near' in sec:
        labels.append('near-section')
        kw.update(near=case['near'], pwr_nf=case['nfpwr'])
    ver = case['version']
    if ver != '9':
        labels.append('version!=9')
    try:
        text = m.as_basic_input(Args(ver), 'TEST.OUT', **kw)
    except Exception as e:
        return Result(fails=[('writer-exception:' + type(e).__name__, repr(e)[:200])], labels=labels)
    fails = []
    try:
        d = br.read(text, ver)
    except br.ReadError as e:
        return Result(fails=[('prompt-order', str(e)[:300])], labels=labels)
    nt = False
    # ---- description
    if not c5(d['f'], case['f'], 1e-11):
        fails.append(('frequency', '%r written for %r' % (d['f'], case['f'])))
    env = case['env']
    if d['ground'] != (env['kind'] != 'free'):
        fails.append(('environment', 'ground=%r for %s' % (d['ground'], env['kind'])))
    elif env['kind'] == 'real':
        labels.append('env-real')
        med = env['media']
        if len(med) >= 2:
            nt = True
        if len(d['media']) != len(med):
            fails.append(('media:count', '%d media written for %d' % (len(d['media']), len(med))))
        else:
            circ = env.get('boundary') == 'circular' or bool(env.get('radials'))
            if len(med) > 1 and d['boundary'] != (2 if circ else 1):
                fails.append(('media:boundary', 'boundary type %r, model is %s' % (d['boundary'], 'circular' if circ else 'linear')))
            for i, (a, b) in enumerate(zip(d['media'], med)):
                if not (c5(a['eps'], b['eps']) and c5(a['sigma'], b['sigma'])):
                    fails.append(('media:constants', '%r written for %r' % (a, b)))
                if i > 0 and not c5(a['height'], b.get('height', 0.0), ab=1e-12):
                    fails.append(('media:height', '%r written for %r' % (a['height'], b.get('height'))))
                if i < len(med) - 1 and not c5(a.get('coord', float('nan')), b['coord']):
                    fails.append(('media:coordinate', '%r written for %r' % (a.get('coord'), b['coord'])))
            if env.get('radials'):
                if d['radials'] is None or d['radials']['n'] != env['radials']['n'] or not c5(d['radials']['r'], env['radials']['r']):
                    fails.append(('media:radials', '%r written for %r' % (d['radials'], env['radials'])))
            elif d['radials'] is not None:
                fails.append(('media:radials', 'radials %r written, model has none' % d['radials']))
    elif env['kind'] == 'ideal' and d['media']:
        fails.append(('media:count', 'ideal ground written with %d media' % len(d['media'])))
    # wires: plain wires as they are, everything else segment by segment
    topo = build.ref_topology(case, m)
    want = []
    for o, g in zip(topo.objs, m.geo):
        plain = o['obj']['type'] == 'wire' and not o['obj'].get('taper')
        if o['obj']['type'] == 'wire' and o['obj'].get('taper') and not getattr(g, 'segtype', 0):
            plain = True          # documented fallback to equal segments
        rad = g.r                 # equivalent radius for insulated wires
        if plain:
            want.append((len(o['segs']) - 1, o['segs'][0], o['segs'][-1], rad))
        else:
            labels.append('emulated')
            nt = True
            for i in range(len(o['segs']) - 1):
                want.append((1, o['segs'][i], o['segs'][i + 1], rad))
    first_last = []
    k_ = 0
    for o, g in zip(topo.objs, m.geo):
        plain = o['obj']['type'] == 'wire' and (not o['obj'].get('taper') or not getattr(g, 'segtype', 0))
        cnt = 1 if plain else len(o['segs']) - 1
        first_last.append((k_, k_ + cnt - 1))
        k_ += cnt
    if len(d['wires']) == len(want):
        # BASIC joins two wire ends only if the typed coordinates are identical
        for (a_, b_) in first_last:
            for i in range(a_, b_):
                if d['wires'][i]['p2'] != d['wires'][i + 1]['p1']:
                    fails.append(('wires:chain-not-identical', 'emulated wires %d and %d: %s / %s' % (i + 1, i + 2, d['wires'][i]['p2'], d['wires'][i + 1]['p1'])))
                    break
        # ... and grounds an end only if its z coordinate is exactly 0
        for (w, e) in topo.grounded:
            zz = d['wires'][first_last[w][0]]['p1'][2] if e == 0 else d['wires'][first_last[w][1]]['p2'][2]
            if zz != 0.0:
                fails.append(('wires:grounded-end-not-zero', 'end %d of object %d is on the ground plane in the model and written with z = %r' % (e + 1, w, zz)))
                break
        for j in topo.junctions:
            if len(j) < 2:
                continue
            pts_ = [tuple(d['wires'][first_last[w][0]]['p1'] if e == 0 else d['wires'][first_last[w][1]]['p2']) for (w, e) in j]
            if len(set(pts_)) != 1:
                fails.append(('wires:junction-not-identical', 'ends %s that the model joins are written as %s' % (j, sorted(set(pts_)))))
                break
    if len(d['wires']) != len(want):
        fails.append(('wires:count', '%d wires written, %d expected' % (len(d['wires']), len(want))))
    else:
        span = max(max(np.abs(w[1]).max(), np.abs(w[2]).max()) for w in want)
        for k, (a, b) in enumerate(zip(d['wires'], want)):
            if a['n'] != b[0]:
                fails.append(('wires:segments', 'wire %d: %d segments written for %d' % (k + 1, a['n'], b[0])))
            # joined ends are written with the coordinates of the end they were matched to: allow the matching tolerance
            if np.abs(np.array(a['p1']) - b[1]).max() > 1e-12 * span + 2 * topo.tol or np.abs(np.array(a['p2']) - b[2]).max() > 1e-12 * span + 2 * topo.tol:
                fails.append(('wires:end-points', 'wire %d: %s - %s written for %s - %s' % (k + 1, a['p1'], a['p2'], list(b[1]), list(b[2]))))
            if not c5(a['r'], b[3], 1e-7):
                fails.append(('wires:radius', 'wire %d: radius %r written for %r' % (k + 1, a['r'], b[3])))
    # sources
    srcs = case['sources']
    if len(d['sources']) != len(srcs):
        fails.append(('sources:count', '%d sources written for %d' % (len(d['sources']), len(srcs))))
    else:
        phs = []
        for a, s in zip(d['sources'], srcs):
            v = complex(*s['v'])
            if a['pulse'] != s['_idx'] + 1:
                fails.append(('sources:pulse', 'pulse %d written for %d' % (a['pulse'], s['_idx'] + 1)))
            if not c5(a['mag'], abs(v)):
                fails.append(('sources:magnitude', '%r written for %r' % (a['mag'], abs(v))))
            wantp = math.degrees(math.atan2(v.imag, v.real))
            phs.append(wantp)
            dphi = abs((a['phase_deg'] - wantp + 180) % 360 - 180)
            if dphi > 1e-5 * max(1.0, abs(wantp)) + 1e-4:
                fails.append(('sources:phase-degrees', 'phase %r written for %r degrees' % (a['phase_deg'], wantp)))
        if len(srcs) >= 2 and max(phs) - min(phs) > 1e-3:
            nt = True
    if len(srcs) > 1:
        labels.append('multi-source')
    # loads
    f = case['f']
    is_s = any(type(l).__name__ not in ('Impedance_Load', 'Skin_Effect_Load', 'Insulation_Load') for l in m.loads)
    exp = []
    for l in m.loads:
        for p in l.pulses:
            exp.append((p.idx + 1, l, p))
    if len(d['loads']) != len(exp):
        fails.append(('loads:count', '%d load entries written for %d loaded pulses' % (len(d['loads']), len(exp))))
    elif exp:
        if d['s_loads'] != is_s:
            fails.append(('loads:type-answer', 'S-parameter answer %r, model has %s loads' % (d['s_loads'], 'Laplace-type' if is_s else 'impedance-type')))
        else:
            labels.append('laplace-loads' if is_s else 'impedance-loads')
            if is_s and ver != '9':
                nt = True
            for a, (pno, l, p) in zip(d['loads'], exp):
                if a['pulse'] != pno:
                    fails.append(('loads:pulse', 'pulse %d written for %d' % (a['pulse'], pno)))
                if not is_s:
                    z = l.impedance(f, p)
                    if not (c5(a['z'].real, z.real, ab=1e-30) and c5(a['z'].imag, z.imag, ab=1e-30)):
                        fails.append(('loads:impedance', '%r written for %r' % (a['z'], z)))
                else:
                    bb, aa = list(map(float, l.b)), list(map(float, l.a))
                    if len(a['b']) != len(bb) or not all(c5(x, y, ab=1e-300) for x, y in zip(a['b'] + a['a'], bb + aa)):
                        fails.append(('loads:coefficients:version-' + ver, 'b %s a %s written for b %s a %s' % (a['b'], a['a'], bb, aa)))
    # commands
    cmds = d['commands']
    kinds = [c[0] for c in cmds]
    wantk = ['C'] + (['P'] if ('dbi' in sec or 'vm' in sec) else []) + (['N', 'N'] if 'near' in sec else []) + ['Q']
    if kinds != wantk:
        fails.append(('commands', 'command sequence %s, requested sections give %s' % (kinds, wantk)))
    else:
        for c in cmds:
            if c[0] == 'P':
                e = c[1]
                if e['kind'] != ('V' if 'vm' in sec else 'D'):
                    fails.append(('pattern:unit', '%r' % e['kind']))
                if not all(c5(x, y, ab=1e-12) for x, y in zip(e['zen'] + e['azi'], th + ph)):
                    fails.append(('pattern:angles', '%s %s written for %s %s' % (e['zen'], e['azi'], th, ph)))
                if 'vm' in sec:
                    if not c5(e['dist'], case['ffdist']):
                        fails.append(('pattern:distance', '%r for %r' % (e['dist'], case['ffdist'])))
                    if (case['ffpwr'] is None) != ('power' not in e) or (case['ffpwr'] is not None and not c5(e['power'], case['ffpwr'])):
                        fails.append(('pattern:power', '%r for %r' % (e.get('power'), case['ffpwr'])))
                if (case['gainfile'] or None) != e.get('file'):
                    fails.append(('pattern:file', '%r for %r' % (e.get('file'), case['gainfile'])))
        nears = [c[1] for c in cmds if c[0] == 'N']
        if nears:
            if [n['kind'] for n in nears] != ['E', 'H']:
                fails.append(('near:kinds', str([n['kind'] for n in nears])))
            nf = case['near']
            for n in nears:
                flat = [n['axes'][i][0] for i in range(3)] + [n['axes'][i][1] for i in range(3)] + [n['axes'][i][2] for i in range(3)]
                if not all(c5(x, y, ab=1e-12) for x, y in zip(flat, nf)):
                    fails.append(('near:grid', '%s written for %s' % (flat, nf)))
                if (case['nfpwr'] is None) != ('power' not in n) or (case['nfpwr'] is not None and not c5(n['power'], case['nfpwr'])):
                    fails.append(('near:power', '%r for %r' % (n.get('power'), case['nfpwr'])))
    # ---- the read-back description as a model
    if not fails:
        try:
            M = build.mm
            wires = [M.Wire(w['n'], *w['p1'], *w['p2'], w['r']) for w in d['wires']]
            media = None
            if d['ground']:
                if not d['media']:
                    media = [M.ideal_ground]
                else:
                    media = []
                    for i, md in enumerate(d['media']):
                        kwm = {}
                        if i == 0 and d['radials']:
                            kwm.update(nradials=d['radials']['n'], radius=d['radials']['r'])
                        kwm['boundary'] = 'circular' if d['boundary'] == 2 else 'linear'
                        if 'coord' in md:
                            kwm['coord'] = md['coord']
                        media.append(M.Medium(md['eps'], md['sigma'], md['height'], **kwm))
            mb = M.Mininec(d['f'], wires, media=media)
            for s in d['sources']:
                mb.register_source(M.Excitation(s['mag'], s['phase_deg']), s['pulse'] - 1)
            for l in d['loads']:
                if 'z' in l:
                    mb.register_load(M.Impedance_Load(l['z']), l['pulse'] - 1)
                else:
                    mb.register_load(M.Laplace_Load(a=l['a'], b=l['b']), l['pulse'] - 1)
            if len(mb.pulses) != len(m.pulses):
                fails.append(('readback:pulse-count', '%d pulses in the read-back model, %d in the original' % (len(mb.pulses), len(m.pulses))))
            else:
                dp = max(np.abs(np.array(a.point) - np.array(b.point)).max() for a, b in zip(mb.pulses, m.pulses))
                span = max(np.abs(np.array(p.point)).max() for p in m.pulses) or 1.0
                if dp > 1e-9 * span + 4 * topo.tol:
                    fails.append(('readback:pulse-positions', 'pulse positions differ by %.3g' % dp))
                thick_ins = any(l['kind'] == 'ins' for l in case['loads']) and any(g.r > 1e-4 * 299.8 / f for g in m.geo)
                # (joined ends are written with the coordinates of the end they were matched to: with ends that only meet
                # within the tolerance the read-back geometry closes gaps of the order of a wire radius, to which the
                # thin-wire kernel responds with delta/radius - numbering and positions are compared, impedances are not)
                if (rules.check(case, check_seg=False) is None and not thick_ins and common.junction_ratio_violation(topo) is None
                        and not case.get('jittered')):
                    m.compute()
                    mb.compute()
                    c = max(common.cond(m), common.cond(mb))
                    if np.isfinite(c) and c < 1e6:
                        resonant = any(l['kind'] in ('trap', 'laplace') or (l['kind'] == 'rlc' and l['L'] and l['C']) for l in case['loads'])
                        tol = (2e-3 if resonant or case['loads'] else 1e-4) * (1 + c / 1e3)
                        imax_ = np.abs(np.array(m.current)).max()
                        for a, b in zip(m.sources, mb.sources):
                            # with several sources the impedance of a port is V / (current caused by all sources): a
                            # port that carries little current amplifies every difference by max|I| / |I_port|
                            amp = max(1.0, imax_ / max(abs(a.current), 1e-300)) if len(m.sources) > 1 else 1.0
                            if abs(a.impedance - b.impedance) > tol * amp * abs(a.impedance):
                                sig = 'readback:impedance'
                                # classification: known finding F-C06 (which wires count as connected depends on
                                # which wire is listed first at a junction; a chain of one-segment wires has
                                # other owners than the object it emulates)
                                try:
                                    from .c06 import physical_unconnected
                                    from ..ref import topology as rtop, geometry as rgeo
                                    tb = rtop.build([dict(segs=rgeo.equal_segments(w['p1'], w['p2'], w['n']), r=w['r']) for w in d['wires']],
                                                    d['ground'])
                                    zs = []
                                    for mod_, tp_ in ((build.model(case), topo), (None, tb)):
                                        if mod_ is None:
                                            wires2 = [M.Wire(w['n'], *w['p1'], *w['p2'], w['r']) for w in d['wires']]
                                            mod_ = M.Mininec(d['f'], wires2, media=media)
                                            for s_ in d['sources']:
                                                mod_.register_source(M.Excitation(s_['mag'], s_['phase_deg']), s_['pulse'] - 1)
                                            for l_ in d['loads']:
                                                mod_.register_load(M.Impedance_Load(l_['z']) if 'z' in l_ else M.Laplace_Load(a=l_['a'], b=l_['b']), l_['pulse'] - 1)
                                        # (a tapered wire, arc or helix is written as a chain of one-segment wires: the
                                        # chain has more 'wires' than the object it emulates, so the connectivity
                                        # of the ORIGINAL description is used for both; the pulses correspond
                                        # one to one - checked above)
                                        pu = physical_unconnected(topo)
                                        if pu.shape[0] != len(mod_.pulses):
                                            pu = physical_unconnected(tp_)
                                        mod_.pulses._matrix_geo_unconnected = pu
                                        mod_.compute()
                                        zs.append([x.impedance for x in mod_.sources])
                                    if all(abs(x - y) <= tol * abs(x) for x, y in zip(*zs)):
                                        sig += ':exact-kernel-eligibility-depends-on-junction-owner'
                                except Exception:
                                    pass
                                fails.append((sig, 'feed impedance %r, read-back model %r (cond %.3g)' % (a.impedance, b.impedance, c)))
                                break
        except Exception as e:
            fails.append(('readback:exception:' + type(e).__name__, repr(e)[:200]))
    uniq = {}
    for s_, d_ in fails:
        uniq.setdefault(s_, d_)
    return Result(fails=list(uniq.items()), nontrivial=nt, labels=sorted(set(labels)))
