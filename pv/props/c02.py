"""C02 Impedance-matrix terms equal the MININEC-3 potential-integral formulation."""
import math
import numpy as np
from hypothesis import strategies as st

from .. import gen, rules, build, common
from ..runner import Result
from ..ref import potentials as rp

ID = 'C02'
RULE = ('Generated: structures of straight and tapered wires, arcs and helices, stepped-diameter chains of collinear wires '
        'on a dyadic lattice (bit-identical segment vectors across junctions of different radii) (junctions in every end-to-end '
        'combination with different radii and segment lengths, grounded ends at either end, thin and thick radii, '
        'free space and ideal ground); from every model up to 40 ordered pulse pairs whose centres are >= 2.5 '
        'segment lengths apart, stratified over interior / junction / grounded observer and source pulses.  '
        'Oracle: Z[m, n] of the program vs the published MININEC-3 expression evaluated by 96-point Gauss-Legendre '
        '(cross-checked against adaptive quadrature on a sub-sample) from the reference pulse paths, radii and '
        'the frequency; over ground minus the same expression for the mirrored source path unless the source pulse '
        'is grounded; tolerance 1e-4 of the summed magnitudes of the potential terms.  Non-trivial = pair involves '
        'a junction or grounded pulse, legs of different direction / length / radius, or an image term.')
BUDGET = {'quick': {'examples': 3200, 'wall': 220}, 'thorough': {'examples': 40000, 'wall': 1500}}
ASSUMPTIONS = ['reference topology (pulse paths) validated by C12, segment end points of tapered wires by C13']
LABEL_FLOORS = {'env-ideal': 0.3, 'pair-junc': 0.3, 'pair-gnd': 0.1, 'thick': 0.3, 'thin': 0.2, 'curve': 0.1, 'tmpl-stepped-chain': 0.12,
                'gnd-end2-nonvertical': 0.02}


@st.composite
def case_strategy(draw, big=False):
    thick = draw(st.sampled_from([None, True, False]))
    u = draw(st.integers(0, 10))
    if u == 10:
        # a grounded vertical tapered wire whose maximum segment length binds (several equal segments in the
        # middle or at the far end), optionally with a top wire: ground pulse x equal-halves interior pulses
        f = draw(gen.frequency())
        lam = gen.C_MHZ_M / f
        n = draw(st.integers(6, 12 if not big else 16))
        sl = draw(gen.logf(1 / 60., 1 / 16.)) * lam
        L = n * sl
        r = draw(gen.logf(1e-6, 1 / 500.)) * lam if thick is None else (draw(gen.logf(1.0001e-4, 1 / 500.)) * lam if thick else draw(gen.logf(1e-7, 0.99e-4)) * lam)
        tmin = max(8 * r, lam / 200.0)
        w = dict(type='wire', n=n, p1=[0.0, 0.0, 0.0], p2=[0.0, 0.0, gen.r6(L)], r=gen.r6(r), tag=None,
                 taper=draw(st.integers(1, 3)), tmin=gen.r6(tmin), tmax=gen.r6(min(lam / 10.0, sl * draw(st.floats(1.05, 1.6)))), _rev=False)
        if w['tmin'] >= w['tmax'] * 0.9:
            w['tmin'] = gen.r6(w['tmax'] / 3)
        objs = [w]
        if draw(st.booleans()):
            nt_ = draw(st.integers(2, 5))
            objs.append(dict(type='wire', n=nt_, p1=list(w['p2']), p2=[gen.r6(nt_ * sl), 0.0, w['p2'][2]], r=gen.r6(r), tag=None,
                             taper=0, tmin=None, tmax=None, _rev=False))
        for o in objs:
            if draw(st.booleans()):
                o['p1'], o['p2'] = o['p2'], o['p1']
                o['_rev'] = True
        objs = draw(gen.shuffled(objs))
        case = {'f': f, 'env': {'kind': 'ideal'}, 'objs': objs, 'xforms': [], 'scales': [], 'sources': [], 'loads': []}
        draw(gen.sources(case, 1, 1))
        case['_info'] = dict(template='tapered-monopole', tag_style='auto', tapered=True)
    elif u <= 1:
        case = draw(gen.curve_antenna(env_kinds=('free', 'ideal'), nsrc=(1, 1)))
    elif u <= 3:
        # collinear wires of different radii whose segment vectors are bit-identical across the junction
        case = draw(gen.stepped_chain(env_kinds=('free', 'ideal'), nsrc=(1, 1), thick=thick, max_seg=8 if not big else 14))
    else:
        case = draw(gen.antenna(env_kinds=('free', 'ideal'), max_wires=4, max_seg=8 if not big else 14, nsrc=(1, 1),
                                taper_prob=0.15, thick=thick, star=1, min_seg=3))
    # the identity holds for every geometry: an elevated structure may hang very low over the ground plane (a radial
    # a few centimetres up), down to a few thousandths of a segment
    if case['env']['kind'] != 'free' and not case['xforms'] and all(o['type'] == 'wire' for o in case['objs']) and draw(st.integers(0, 3)) == 0:
        zs = [o[e][2] for o in case['objs'] for e in ('p1', 'p2')]
        zmin = min(zs)
        if zmin > 0:
            segmin = min(float(np.linalg.norm(np.array(o['p2']) - np.array(o['p1']))) / o['n'] for o in case['objs'])
            newz = segmin * draw(st.sampled_from([3e-3, 1e-2, 0.05, 0.3]))
            for o in case['objs']:
                for e in ('p1', 'p2'):
                    o[e] = [o[e][0], o[e][1], float(o[e][2] - zmin + newz)]
            case['low'] = True
    case['pairseed'] = draw(st.integers(0, 2 ** 30))
    # the matrix of an object that has been filled before (the statement holds for every fill)
    case['refill'] = draw(st.integers(0, 3)) == 0
    return case


def strategy(tier):
    return case_strategy(big=tier == 'thorough')


def check(case):
    why = rules.check(case, check_seg=False, clearance=0.0 if case.get('low') else 1.0)
    if why:
        return Result(skipped=why)
    labels = common.base_labels(case)
    if case.get('low'):
        labels.append('low-over-ground')
    try:
        m = build.model(case)
    except build.Rejected as e:
        return Result(skipped='rejected: ' + str(e)[:50])
    m.compute_impedance_matrix()
    if case.get('refill'):
        labels.append('second-fill-of-one-object')
        m.compute_impedance_matrix()
    Z = np.array(m.Z)
    topo = build.ref_topology(case, m)
    # README: segments should not be longer than lambda/20 (the generators use lambda/10); with longer segments the
    # program's 2- and 4-point Gauss rules for distant pairs no longer resolve the phase along the source segment
    why = common.segment_rule_violation(topo, 299.8 / case['f'], lo=0.0, hi=1 / 10.0, seg_r=0.0)
    if why:
        return Result(skipped=why)
    if len(topo.pulses) != Z.shape[0]:
        return Result(fails=[('pulse-count', 'reference has %d pulses, matrix %d' % (len(topo.pulses), Z.shape[0]))], labels=labels)
    ground = build.has_ground(case)
    lam = 299.8 / case['f']
    k = 2 * math.pi / lam
    srm = 1e-4 * lam
    P = topo.pulses
    n = len(P)
    far = []
    for i in range(n):
        for j in range(n):
            if i == j:
                continue
            sl = max(P[i].l0, P[i].l1, P[j].l0, P[j].l1)
            if np.linalg.norm(P[i].pt - P[j].pt) >= 2.5 * sl:
                far.append((i, j))
    if not far:
        return Result(skipped='no pulse pair 2.5 segment lengths apart')
    # deterministic stratified sample (no RNG of our own: an LCG on the drawn seed)
    seed_ = case['pairseed']

    def key(ij):
        return (P[ij[0]].kind, P[ij[1]].kind)
    groups = {}
    for ij in far:
        groups.setdefault(key(ij), []).append(ij)
    chosen = []
    x = seed_ or 1
    per = max(2, 40 // len(groups))
    for g in sorted(groups):
        lst = groups[g]
        for _ in range(min(per, len(lst))):
            x = (x * 1103515245 + 12345) % (2 ** 31)
            chosen.append(lst.pop(x % len(lst)))
    kinds = set()
    for i, j in chosen:
        kinds.add(P[i].kind)
        kinds.add(P[j].kind)
    if 'junc' in kinds:
        labels.append('pair-junc')
    if 'gnd' in kinds:
        labels.append('pair-gnd')
    if ground:
        labels.append('image-term')
    if any(o['r'] > srm for o in topo.objs):
        labels.append('thick')
    if any(o['r'] <= srm for o in topo.objs):
        labels.append('thin')
    if any(o['obj']['type'] != 'wire' for o in topo.objs):
        labels.append('curve')
    for (w, e) in topo.grounded:
        s = topo.objs[w]['segs']
        d = s[-1] - s[0]
        if e == 1 and abs(d[0]) + abs(d[1]) > 1e-9 * abs(d[2]):
            labels.append('gnd-end2-nonvertical')
    nt = ground or 'junc' in kinds or 'gnd' in kinds or any(o['obj'].get('taper') for o in topo.objs) or 'curve' in labels
    fails = []
    worst = (0.0, None)
    for c_, (i, j) in enumerate(chosen):
        adaptive = c_ < 2
        val, scale = rp.term(P[i], P[j], k, srm, adaptive)
        if ground and P[j].kind != 'gnd':
            v2, s2 = rp.term(P[i], P[j].mirrored(), k, srm, adaptive)
            val -= v2
            scale += s2
        err = abs(Z[i, j] - val) / scale
        if err > worst[0]:
            worst = (err, (i, j, Z[i, j], val))
        if err > 1e-4:
            fails.append(('term:%s<-%s%s' % (P[i].kind, P[j].kind, ':ground' if ground else ''),
                          'Z[%d,%d] = %r, formulation gives %r (deviation %.3g of the term scale %.3g)'
                          % (i + 1, j + 1, Z[i, j], val, err, scale)))
            if len(fails) >= 3:
                break
    return Result(fails=fails, nontrivial=bool(nt), labels=sorted(set(labels)))
