"""C17 Pulse addressing: sources and loads act on exactly the pulse the user named."""
import copy
import numpy as np
from hypothesis import strategies as st

from .. import gen, rules, build, common
from ..runner import Result
from ..ref import report

ID = 'C17'
RULE = ('Generated: antennas of straight wires, arcs and helices with automatic, consecutive, sparse, permuted and '
        'mixed explicit/automatic tags, junctions at either wire end, grounded ends, single-segment wires; 1..3 '
        'sources and 1..3 lumped loads addressed by absolute number or as k-th pulse of tag t, plus all-of-object '
        'and all attachments.  Oracle: the ANTENNA GEOMETRY table of the report (row number = pulse number, k-th '
        'row of the block of tag t) cross-checked with the reference topology; Excitation.idx / load pulses equal '
        'the named rows; the same model with every address rewritten in the other form gives identical currents, '
        'impedances and SOURCE / LOAD listings; all-attachments load every row of the object / antenna exactly '
        'once.  Non-trivial = tags differ from positions and a junction pulse or a pulse of a non-first object is '
        'addressed per object.')
BUDGET = {'quick': {'examples': 1600, 'wall': 200}, 'thorough': {'examples': 50000, 'wall': 1500}}
ASSUMPTIONS = ['report parser validated against the golden reports']
LABEL_FLOORS = {'tag!=position': 0.35, 'addr-obj': 0.4, 'addressed-junction-pulse': 0.1, 'attach-all-object': 0.1,
                'attach-all': 0.05, 'curve': 0.15, 'tags-mixed': 0.08}


@st.composite
def case_strategy(draw, big=False):
    if draw(st.integers(0, 3)) == 0:
        case = draw(gen.curve_antenna(env_kinds=('free', 'ideal'), nsrc=(1, 3)))
    else:
        case = draw(gen.antenna(env_kinds=('free', 'ideal'), max_wires=5, max_seg=6 if not big else 10, nsrc=(1, 3),
                                tapers=False, star=2, tag_styles=('auto', 'sparse', 'sparse', 'permuted', 'permuted', 'mixed', 'mixed')))
    topo, objs = gen.stand_in_topology(case)
    npl = len(topo.pulses)
    lds = []
    for i in range(draw(st.integers(1, 3))):
        l = draw(gen.lumped_load(kinds=('z', 'z', 'rlc', 'laplace')))
        form = draw(st.sampled_from(['abs', 'obj', 'obj', 'all-obj', 'all']))
        if form == 'all':
            l['attach'] = ['all']
        elif form == 'all-obj':
            # one or two whole objects, each named by its own statement
            l['attach'] = [{'all': True, 'tag': objs[k_]['tag']} for k_ in
                           draw(st.lists(st.integers(0, len(objs) - 1), min_size=1, max_size=min(2, len(objs)), unique=True))]
        else:
            at = []
            owners = set()
            for j in draw(st.lists(st.integers(0, npl - 1), min_size=1, max_size=3, unique=True)):
                p = topo.pulses[j]
                owners.update(lg[0] for lg in p.legs)
                if form == 'obj' or draw(st.booleans()):
                    at.append({'k': topo.per_obj[p.owner].index(p), 'tag': objs[p.owner]['tag']})
                else:
                    at.append(j)
            rest = [k_ for k_ in range(len(objs)) if k_ not in owners and topo.per_obj[k_]]
            if rest and draw(st.integers(0, 2)) == 0:
                # ... followed by a whole-object statement for another object
                at.append({'all': True, 'tag': objs[draw(st.sampled_from(rest))]['tag']})
            l['attach'] = at
        lds.append(l)
    case['loads'] = lds
    nat = sum(len(l.get('attach', [])) for l in lds)
    if nat >= 2 and draw(st.booleans()):
        case['attach_perm'] = list(draw(st.permutations(list(range(nat)))))
    return case


def strategy(tier):
    return case_strategy(big=tier == 'thorough')


def other_form(addr, topo, robjs):
    """rewrite an address into the other addressing form, using the reference topology only"""
    if isinstance(addr, dict) and addr.get('all'):
        return addr
    if addr == 'all':
        return addr
    if isinstance(addr, dict):
        w = [i for i, o in enumerate(robjs) if o['tag'] == addr['tag']][0]
        return topo.per_obj[w][addr['k']].idx
    p = topo.pulses[addr]
    return {'k': topo.per_obj[p.owner].index(p), 'tag': robjs[p.owner]['tag']}


def resolve(addr, topo, robjs):
    """reference: list of absolute 0-based pulse indices an address names"""
    if addr == 'all':
        return [p.idx for p in topo.pulses]
    if isinstance(addr, dict) and addr.get('all'):
        w = [i for i, o in enumerate(robjs) if o['tag'] == addr['tag']][0]
        return [p.idx for p in topo.per_obj[w]]
    if isinstance(addr, dict):
        w = [i for i, o in enumerate(robjs) if o['tag'] == addr['tag']][0]
        return [topo.per_obj[w][addr['k']].idx]
    return [addr]


def check(case):
    why = rules.check(case, check_seg=False)
    if why:
        return Result(skipped=why)
    try:
        m = common.solved(case)
    except build.Rejected as e:
        return Result(skipped='rejected: ' + str(e)[:50])
    topo = build.ref_topology(case, m)
    robjs = topo.objs
    labels = common.base_labels(case)
    fails = []
    text = m.as_mininec(options=set())
    try:
        rep = report.parse(text)
    except report.ParseError as e:
        return Result(fails=[('report:unparsable', str(e))], labels=labels)
    # --- geometry table: row number and block membership
    tagpos = [o['tag'] for o in robjs]
    if tagpos != list(range(1, len(robjs) + 1)):
        labels.append('tag!=position')
    if any(o['obj']['type'] != 'wire' for o in robjs):
        labels.append('curve')
    blocks = rep['geometry']
    if [b['tag'] for b in blocks] != sorted(tagpos) or [b['tag'] for b in blocks] != tagpos:
        fails.append(('table:object-order', 'blocks for tags %s, objects in tag order are %s' % ([b['tag'] for b in blocks], tagpos)))
        return Result(fails=fails, labels=labels)
    rows_by_tag = {b['tag']: [r['no'] for r in b['rows']] for b in blocks}
    flat = [n for b in blocks for n in rows_by_tag[b['tag']]]
    if flat != list(range(1, len(topo.pulses) + 1)):
        fails.append(('table:numbering', 'table numbers %s' % flat[:30]))
        return Result(fails=fails, labels=labels)
    for w, o in enumerate(robjs):
        want = [p.idx + 1 for p in topo.per_obj[w]]
        if rows_by_tag[o['tag']] != want:
            fails.append(('table:block-membership', 'block of tag %d lists pulses %s, reference %s (junction pulse belongs '
                          'to the later-tagged object)' % (o['tag'], rows_by_tag[o['tag']], want)))
            return Result(fails=fails, labels=labels)

    def named_row(addr):
        """oracle from the printed table alone"""
        if isinstance(addr, dict):
            return rows_by_tag[addr['tag']][addr['k']]
        return addr + 1

    nt = False
    # --- sources
    for k, (s, ms) in enumerate(zip(case['sources'], m.sources)):
        row = named_row(s['pulse'])
        if isinstance(s['pulse'], dict):
            labels.append('addr-obj')
            if 'tag!=position' in labels:
                nt = True
        p = topo.pulses[row - 1]
        if p.kind == 'junc':
            labels.append('addressed-junction-pulse')
        if ms.idx + 1 != row:
            fails.append(('source:wrong-pulse:' + ('obj' if isinstance(s['pulse'], dict) else 'abs'),
                          'source %s acts on pulse %d, the table row it names is %d' % (s['pulse'], ms.idx + 1, row)))
        if rep['source_data'][k]['pulse'] != row or rep['sources_listing'][k][0] != row:
            fails.append(('source:listing', 'source %s is listed as pulse %d / %d, named row %d'
                          % (s['pulse'], rep['sources_listing'][k][0], rep['source_data'][k]['pulse'], row)))
    # --- loads: the program registers a load when its first attachment is read and appends the pulses in the
    # order of the attachment options
    lds = case['loads']
    seq = build.attach_sequence(lds, case.get('attach_perm'))
    reg_order = []
    pulses_of = {}
    for num, i, at in seq:
        if num not in reg_order:
            reg_order.append(num)
        want = pulses_of.setdefault(num, [])
        if at == 'all':
            labels.append('attach-all')
            want += [n for b_ in blocks for n in rows_by_tag[b_['tag']]]
        elif isinstance(at, dict) and at.get('all'):
            labels.append('attach-all-object')
            want += rows_by_tag[at['tag']]
            if 'tag!=position' in labels:
                nt = True
        else:
            want.append(named_row(at))
            if isinstance(at, dict):
                labels.append('addr-obj')
                if 'tag!=position' in labels:
                    nt = True
            if topo.pulses[want[-1] - 1].kind == 'junc':
                labels.append('addressed-junction-pulse')
    want_listed = []
    if len(m.loads) != len(reg_order):
        fails.append(('load:count', '%d loads in the model, %d given' % (len(m.loads), len(reg_order))))
    else:
        for pos, num in enumerate(reg_order):
            want = pulses_of[num]
            got = [p.idx + 1 for p in m.loads[pos].pulses]
            if got != want:
                i_ = [i for n_, i, _ in seq if n_ == num][0]
                form = 'all' if any(a == 'all' or (isinstance(a, dict) and a.get('all')) for a in lds[i_]['attach']) else 'single'
                fails.append(('load:wrong-pulses:' + form, 'load %d %s acts on pulses %s, named table rows %s' % (num, lds[i_]['attach'], got, want)))
            want_listed += want
    listed = [l['pulse'] for l in rep['loads']]
    if listed != want_listed:
        fails.append(('load:listing', 'load listing names pulses %s, expected %s' % (listed, want_listed)))
    # --- the same model with the addresses in the other form
    alt = copy.deepcopy(case)
    for s in alt['sources']:
        s['pulse'] = other_form(s['pulse'], topo, robjs)
    for l in alt['loads']:
        l['attach'] = [other_form(a, topo, robjs) for a in l['attach']]
    try:
        m2 = common.solved(alt)
    except build.Rejected as e:
        fails.append(('other-form-rejected', str(e)[:100]))
        return Result(fails=fails, nontrivial=nt, labels=sorted(set(labels)))
    I1, I2 = np.array(m.current), np.array(m2.current)
    if I1.shape != I2.shape or np.abs(I1 - I2).max() > 1e-12 * np.abs(I1).max():
        fails.append(('forms-differ:currents', 'currents differ by %.3g between the two addressing forms' % (np.abs(I1 - I2).max() / np.abs(I1).max())))
    # each voltage acts on the pulse named with it: the currents are the sum of the currents of the same antenna with
    # one of the sources at a time (named in the same form)
    if len(case['sources']) >= 2 and not fails:
        cnd = common.cond(m)
        if np.isfinite(cnd) and cnd < 1e7:
            tot = np.zeros_like(I1)
            try:
                for k in range(len(case['sources'])):
                    ck = copy.deepcopy(case)
                    ck['sources'] = [ck['sources'][k]]
                    tot = tot + np.array(common.solved(ck).current)
                e_ = np.abs(tot - I1).max() / np.abs(I1).max()
                if e_ > 1e-9 * max(cnd, 10) * len(case['sources']):
                    fails.append(('source:voltage-on-another-pulse', 'currents differ by %.3g from the sum of the currents of the sources '
                                  'taken one at a time: a voltage does not act on the pulse named with it' % e_))
            except build.Rejected as e:
                fails.append(('source:single-source-variant-rejected', str(e)[:150]))
    t2 = m2.as_mininec(options=set())

    def section(t, a, b):
        return t[t.index(a):t.index(b)]
    if section(text, 'NO. OF SOURCES', 'CURRENT DATA') != section(t2, 'NO. OF SOURCES', 'CURRENT DATA'):
        fails.append(('forms-differ:listings', 'SOURCE / LOAD listings differ between the two addressing forms'))
    return Result(fails=fails, nontrivial=nt, labels=sorted(set(labels)))
