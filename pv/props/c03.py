"""C03 Image theory: ideal ground equals free space plus mirrored antenna."""
import copy
import math
import numpy as np
from hypothesis import strategies as st

from .. import gen, rules, build, common
from ..runner import Result

ID = 'C03'
RULE = ('Generated: rule-conforming antennas of straight (plain and tapered) wires over ideal ground: grounded '
        'vertical / sloping / bent / branched structures, wires dropping to ground (grounded at end 2), several '
        'grounded wires, elevated structures of any orientation; 1..3 sources on any pulses incl. ground pulses, '
        '0..2 lumped loads.  Oracle: free-space model of all wires plus their mirror images (image sources fed in '
        'mirror sense derived from the pulse path directions, ground-pulse source -> 2V on the wire/image junction '
        'pulse, ground-pulse load -> 2Z): Z_ground = Z_pair (Z_pair/2 for ground-pulse feeds), currents on the real '
        'half equal, gain = pair gain + 3.0103 dB (total, vertical, horizontal).  Non-trivial = horizontal current '
        'component, grounded non-vertical wire, >1 source, or a load on a ground pulse.')
BUDGET = {'quick': {'examples': 2000, 'wall': 220}, 'thorough': {'examples': 50000, 'wall': 1500}}
ASSUMPTIONS = ['tolerance 5e-4 (impedance, currents), 0.01 dB (gain within 40 dB of the maximum), conditioning gate of the statement',
               'curved objects are covered through chains of straight wires only (a mirrored helix changes handedness)']
LABEL_FLOORS = {'grounded-end2': 0.08, 'grounded-nonvertical': 0.15, 'src-gnd': 0.1, 'load-on-gnd': 0.03, 'elevated': 0.15,
                'multi-source': 0.3, 'grounded-end2-nonvertical': 0.04}

M = np.array([1.0, 1.0, -1.0])


@st.composite
def case_strategy(draw, big=False):
    case = draw(gen.antenna(env_kinds=('ideal',), max_wires=4, max_seg=6 if not big else 10, nsrc=(1, 3),
                            taper_prob=0.1, star=1))
    # a second grounded wire whose foot stands a fraction of a segment beside the foot of a grounded wire (a
    # parasitic twin, a two-wire cage): separate radiators on the ground plane, not joined to each other
    if all(o['type'] == 'wire' for o in case['objs']) and not case['xforms'] and not case['scales'] and draw(st.integers(0, 3)) == 0:
        gw = [(i, e) for i, o in enumerate(case['objs']) for e in ('p1', 'p2') if o[e][2] == 0.0 and not o.get('taper')]
        if gw:
            i, e = draw(st.sampled_from(gw))
            o = case['objs'][i]
            foot, top = np.array(o[e], dtype=float), np.array(o['p2' if e == 'p1' else 'p1'], dtype=float)
            L = float(np.linalg.norm(top - foot)) / o['n']
            ang = draw(st.floats(0, 2 * math.pi))
            off = np.array([math.cos(ang), math.sin(ang), 0.0]) * L * draw(st.floats(0.12, 0.35))
            ang2 = draw(st.floats(0, 2 * math.pi))
            off2 = off + np.array([math.cos(ang2), math.sin(ang2), 0.0]) * L * draw(st.floats(0.0, 0.6))
            n2 = draw(st.sampled_from([o['n'], o['n'], max(1, o['n'] // 2), o['n'] + 1]))
            twin = dict(type='wire', n=n2, p1=[float(x) for x in foot + off], p2=[float(x) for x in top + off2], r=o['r'], tag=None,
                        taper=0, tmin=None, tmax=None, _rev=False)
            twin['p1'][2] = 0.0
            if draw(st.booleans()):
                twin['p1'], twin['p2'] = twin['p2'], twin['p1']
                twin['_rev'] = True
            case['objs'].append(twin)
            case['twin_feet'] = True
    topo, objs = gen.stand_in_topology(case)
    lds = []
    for i in range(draw(st.integers(0, 2))):
        l = draw(gen.lumped_load(kinds=('z',)))
        gp = [p.idx for p in topo.pulses if p.kind == 'gnd']
        if gp and draw(st.booleans()):
            l['attach'] = [draw(st.sampled_from(gp))]
        else:
            l['attach'] = [draw(st.integers(0, len(topo.pulses) - 1))]
        lds.append(l)
    case['loads'] = lds
    case['ffpwr'] = gen.r6(draw(gen.logf(1e-3, 1e5))) if draw(st.integers(0, 3)) == 0 else None
    return case


def strategy(tier):
    return case_strategy(big=tier == 'thorough')


def pdir(p):
    d = p.e1 - p.e0
    return d / np.linalg.norm(d)


def find(topo, pt, tol, pred=None):
    return [p for p in topo.pulses if np.linalg.norm(p.pt - pt) <= tol and (pred is None or pred(p))]


def check(case):
    # image theory does not need the separation rule for unjoined wires: waived for the twin-feet cases
    why = rules.check(case, sep=0.0) if case.get('twin_feet') else rules.check(case)
    if why:
        return Result(skipped=why)
    labels = common.base_labels(case)
    if case.get('twin_feet'):
        labels.append('grounded-feet-closer-than-a-segment')
    try:
        mg = common.solved(case)
    except build.Rejected as e:
        return Result(skipped='rejected: ' + str(e)[:50])
    tg = build.ref_topology(case, mg)
    why = common.junction_ratio_violation(tg)
    if why:
        return Result(skipped=why)
    nobj = len(case['objs'])
    # ---- free-space pair: originals with explicit tags 1..N in tag order, images N+1..2N
    build.assign_tags(case)
    order = sorted(range(nobj), key=lambda i: case['objs'][i]['_tag'])
    pair = {'f': case['f'], 'env': {'kind': 'free'}, 'xforms': [], 'scales': [], 'sources': [], 'loads': [], 'objs': []}
    for k, i in enumerate(order):
        o = copy.deepcopy(case['objs'][i])
        o['tag'] = k + 1
        pair['objs'].append(o)
    for k, i in enumerate(order):
        o = copy.deepcopy(case['objs'][i])
        o['tag'] = nobj + k + 1
        o['p1'] = [o['p1'][0], o['p1'][1], -o['p1'][2]]
        o['p2'] = [o['p2'][0], o['p2'][1], -o['p2'][2]]
        pair['objs'].append(o)
    tf, fobjs = gen.stand_in_topology(pair)
    if any(o['obj'].get('taper') for o in fobjs):
        # need the real segment end points of tapered wires: build once without sources
        pair['sources'] = [{'pulse': 0, 'v': [1.0, 0.0]}]
        try:
            mtmp = build.model(pair)
        except build.Rejected as e:
            return Result(fails=[('pair-rejected', str(e)[:200])], labels=labels)
        tf = build.ref_topology(pair, mtmp)
        pair['sources'] = []
    tol_pos = 10 * max(tg.tol, tf.tol)
    is_orig = lambda p: all(l[0] < nobj for l in p.legs)
    is_img = lambda p: all(l[0] >= nobj for l in p.legs)
    is_mixed = lambda p: not is_orig(p) and not is_img(p)
    mapping = {}      # ground pulse idx -> (free pulse idx, sign, factor)
    for p in tg.pulses:
        if p.kind == 'gnd':
            h = find(tf, p.pt, tol_pos, is_mixed)
            if len(h) != 1:
                return Result(fails=[('harness:ground-pulse-mapping', '%d wire/image junction pulses at grounded point %s' % (len(h), list(p.pt)))], labels=labels)
            q = h[0]
            mapping[p.idx] = (q.idx, 1.0 if pdir(p) @ pdir(q) > 0 else -1.0, None)
        else:
            h = [q for q in find(tf, p.pt, tol_pos, is_orig)
                 if np.linalg.norm(q.e0 - p.e0) <= tol_pos and np.linalg.norm(q.e1 - p.e1) <= tol_pos]
            if len(h) != 1:
                return Result(fails=[('harness:pulse-mapping', 'pulse %d: %d identical pulses in the free-space pair' % (p.idx + 1, len(h)))], labels=labels)
            q = h[0]
            hi = [r for r in find(tf, p.pt * M, tol_pos, is_img)
                  if (np.linalg.norm(r.e0 - p.e0 * M) <= tol_pos and np.linalg.norm(r.e1 - p.e1 * M) <= tol_pos)
                  or (np.linalg.norm(r.e1 - p.e0 * M) <= tol_pos and np.linalg.norm(r.e0 - p.e1 * M) <= tol_pos)]
            if len(hi) != 1:
                return Result(fails=[('harness:image-pulse-mapping', 'pulse %d: %d mirror pulses' % (p.idx + 1, len(hi)))], labels=labels)
            r = hi[0]
            # image current vector = -M (I d): along the image pulse's own direction d' the current is
            # -I * sign(d' . M d)
            sg_img = -1.0 if pdir(r) @ (pdir(p) * M) > 0 else 1.0
            mapping[p.idx] = (q.idx, 1.0, (r.idx, sg_img))
    nt = False
    for s in case['sources']:
        v = complex(*s['v'])
        qi, sg, img = mapping[s['_idx']]
        if img is None:
            w = 2 * v * sg
            pair['sources'].append({'pulse': qi, 'v': [w.real, w.imag], '_idx': qi})
        else:
            pair['sources'].append({'pulse': qi, 'v': [v.real, v.imag], '_idx': qi})
            w = v * img[1]
            pair['sources'].append({'pulse': img[0], 'v': [w.real, w.imag], '_idx': img[0]})
    for l in case['loads']:
        qi, sg, img = mapping[l['attach'][0]]
        z = complex(*l['z'])
        if img is None:
            labels.append('load-on-gnd')
            nt = True
            pair['loads'].append({'kind': 'z', 'z': [2 * z.real, 2 * z.imag], 'attach': [qi]})
        else:
            pair['loads'].append({'kind': 'z', 'z': [z.real, z.imag], 'attach': [qi]})
            pair['loads'].append({'kind': 'z', 'z': [z.real, z.imag], 'attach': [img[0]]})
    try:
        mf = common.solved(pair)
    except build.Rejected as e:
        return Result(fails=[('pair-rejected', str(e)[:200])], labels=labels)
    c = max(common.cond(mg), common.cond(mf))
    tol = common.gate(c)
    if tol is None:
        return Result(skipped='condition number above 1e5')
    # labels
    for (w, e) in tg.grounded:
        s = tg.objs[w]['segs']
        d = s[-1] - s[0]
        vert = abs(d[0]) + abs(d[1]) < 1e-9 * abs(d[2])
        if e == 1:
            labels.append('grounded-end2')
        if not vert:
            labels.append('grounded-nonvertical')
            nt = True
            if e == 1:
                labels.append('grounded-end2-nonvertical')
    if not tg.grounded:
        labels.append('elevated')
    if any(abs(pdir(p)[0]) + abs(pdir(p)[1]) > 1e-6 for p in tg.pulses):
        nt = True
    if len(case['sources']) > 1:
        nt = True
    fails = []
    Ig, If = np.array(mg.current), np.array(mf.current)
    imax = np.abs(Ig).max()
    # impedances
    k = 0
    for s, ms in zip(case['sources'], mg.sources):
        qi, sg, img = mapping[s['_idx']]
        zf = mf.sources[k].impedance
        k += 1 if img is None else 2
        want = zf / 2 if img is None else zf
        if abs(ms.impedance - want) > tol * common.port_amp(mg, ms) * abs(want):
            kind = 'ground-pulse-feed' if img is None else 'feed'
            fails.append(('impedance:' + kind, 'over ground %r, free-space pair gives %r (cond %.3g)' % (ms.impedance, want, c)))
            break
    # currents of the real half
    worst = 0.0
    for p in tg.pulses:
        qi, sg, img = mapping[p.idx]
        worst = max(worst, abs(Ig[p.idx] - sg * If[qi]) / imax)
    if worst > tol:
        fails.append(('currents', 'currents on the real half differ by %.3g of the largest current (tol %.2g, cond %.3g)' % (worst, tol, c)))
    # gain
    if common.net_power_ok(mg) and common.net_power_ok(mf):
        A = build.mm.Angle
        # (the gain is a ratio to the power the sources deliver: a requested power level must not enter it)
        kwp = {'pwr': case['ffpwr']} if case.get('ffpwr') else {}
        mg.compute_far_field(A(3, 12, 8), A(0, 40, 9), **kwp)
        mf.compute_far_field(A(3, 12, 8), A(0, 40, 9), **kwp)
        gg, gf = np.array(mg.far_field.gain), np.array(mf.far_field.gain)
        msk = gg > gg[..., 2].max() - 40
        d = np.abs(gg - gf - 3.0103)[msk]
        if d.size and d.max() > common.gain_tol_db((mg, mf), tol):
            fails.append(('gain', 'gain over ground minus gain of the free-space pair differs from 3.0103 dB by %.3g dB' % d.max()))
        # the field itself (same voltages): over ground it equals the field of the pair in the upper half space
        if kwp:
            labels.append('power-requested')
            mg.compute_far_field(A(3, 12, 8), A(0, 40, 9))
            mf.compute_far_field(A(3, 12, 8), A(0, 40, 9))
        eg = np.hypot(np.abs(np.array(mg.far_field.e_theta)), np.abs(np.array(mg.far_field.e_phi)))
        ef = np.hypot(np.abs(np.array(mf.far_field.e_theta)), np.abs(np.array(mf.far_field.e_phi)))
        de = np.abs(eg - ef).max() / max(eg.max(), 1e-300)
        if de > 2 * tol:
            fails.append(('field', '|E| r over ground differs from that of the free-space pair by %.3g of the largest value (tol %.2g)' % (de, 2 * tol)))
    return Result(fails=fails, nontrivial=nt, labels=sorted(set(labels)))
