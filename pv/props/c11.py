"""C11 Real ground changes only the far field, consistently with its limits."""
import copy
import math
import numpy as np
from hypothesis import strategies as st

from .. import gen, rules, build, common
from ..runner import Result

ID = 'C11'
RULE = ('Generated: rule-conforming antennas over real ground: 1..3 media (eps 1..80, sigma 1e-4..1e3, heights <= 0, '
        'linear or circular boundaries at drawn positions, optional radial screen), 1..2 sources, 0..2 loads (lumped complex / series RLC on any pulse incl. ground pulses, '
        'skin effect).  Oracle: (a) '
        'currents identical (1e-12) to the same antenna over ideal ground; (b) with all conductivities replaced by '
        '1e2, 1e4, .., 1e12 (media heights 0) the largest gain difference to ideal ground at elevations >= 2.5 deg '
        'does not grow, is <= 0.02 dB at 1e12 and falls by >= 50 per four decades at the end; (c) splitting a drawn medium into two adjacent pieces with '
        'identical constants and height leaves the pattern unchanged (1e-9 dB); (d) appending a medium whose '
        'boundary lies just beyond every reflection point leaves it unchanged; (e) symmetries of the documented media '
        'layout: rotation about z over concentric media, y-shift and x-shift-with-boundaries over media allocated '
        'along x, electromagnetic scaling with sigma/s; (g) complex far field vs an independent reference model of the '
        'documented reflection-coefficient approximation (1e-6 of the maximum).  Non-trivial = >= 2 media with '
        'reflection points on both sides of a boundary, or radials.')
BUDGET = {'quick': {'examples': 700, 'wall': 220}, 'thorough': {'examples': 20000, 'wall': 1500}}
ASSUMPTIONS = ['theta = 90 deg exactly is avoided (the program places that reflection point at 1e5 m by definition)',
               'gains compared where they exceed -100 dB']
LABEL_FLOORS = {'media>=2': 0.4, 'radials': 0.08, 'boundary-crossed': 0.2, 'circular': 0.2, 'loaded': 0.3, 'load-on-gnd': 0.03}

TH_POS = (2.5, 5.0, 18)       # 2.5 .. 87.5
TH_BOTH = (-87.5, 5.0, 36)    # an over-the-top elevation cut: -87.5 .. 87.5 (negative zenith angles are accepted)
TH = TH_POS                   # set per case at the start of check()
PH = (0.0, 30.0, 12)


@st.composite
def case_strategy(draw, big=False):
    case = draw(gen.antenna(env_kinds=('real',), max_wires=3, max_seg=6 if not big else 10, nsrc=(1, 2), taper_prob=0.05))
    lam = gen.C_MHZ_M / case['f']
    # loads (the solve must not depend on the ground constants whatever is attached, a load on a ground pulse included)
    topo, objs = gen.stand_in_topology(case)
    lds = []
    for i in range(draw(st.sampled_from([0, 0, 1, 1, 2]))):
        kind = draw(st.sampled_from(['lumped', 'lumped', 'lumped', 'skin']))
        if kind == 'lumped':
            l = draw(gen.lumped_load(kinds=('z', 'rlc')))
            gp = [p.idx for p in topo.pulses if p.kind == 'gnd']
            if gp and draw(st.booleans()):
                l['attach'] = [draw(st.sampled_from(gp))]
            else:
                l['attach'] = [draw(st.integers(0, len(topo.pulses) - 1))]
            lds.append(l)
        elif not any(x['kind'] == 'skin_c' for x in lds):
            lds.append({'kind': 'skin_c', 'v': gen.r6(draw(gen.logf(1e4, 1e8))), 'tag': None})
    case['loads'] = lds
    # boundary coordinates in units of the antenna: reflection points lie within a few heights
    env = case['env']
    # (the first interface may also lie at 0 - the antenna on the shore line, a first zone of radius 0 - or, for a
    # linear boundary, at negative x)
    u_ = draw(st.integers(0, 5))
    c = 0.0
    for i, m in enumerate(env['media'][:-1]):
        if i == 0 and u_ == 0:
            c = 0.0
        elif i == 0 and u_ == 1 and env.get('boundary') != 'circular' and not env.get('radials'):
            c = -draw(st.floats(0.05, 3.0)) * lam
        else:
            c += draw(st.floats(0.05, 6.0)) * lam
        m['coord'] = gen.r6(c)
    case['split'] = {'which': draw(st.integers(0, len(env['media']) - 1)), 'frac': draw(st.floats(0.1, 0.9)),
                     'beyond': gen.r6(draw(st.floats(1.0, 50.0)) * lam)}
    case['sym'] = {'rot_steps': draw(st.integers(1, 11)), 'dy': gen.r6(draw(st.floats(-3, 3))), 'dx': gen.r6(draw(st.floats(-2, 2))),
                   'scale': gen.r6(draw(gen.logf(0.05, 20)))}
    case['far_add'] = {'eps': gen.r6(draw(st.floats(1, 80))), 'sigma': gen.r6(draw(gen.logf(1e-4, 1e3))),
                       'height': -gen.r6(draw(st.floats(0, 5)))}
    case['over_the_top'] = draw(st.integers(0, 2)) == 0
    return case


def strategy(tier):
    return case_strategy(big=tier == 'thorough')


def pattern(m):
    A = build.mm.Angle
    m.compute_far_field(A(*TH), A(*PH))
    return np.array(m.far_field.gain)


def maxdiff(a, b, top=None):
    msk = (a > -100) & (b > -100)
    if top is not None:
        # relations that involve a new solve: compare where the gain is within 'top' dB of the maximum
        msk &= a > a[..., 2].max() - top
    if not msk.any():
        return 0.0
    return float(np.abs(a - b)[msk].max())


def reflection_extent(topo, circular):
    """largest reflection-point coordinate over all pulses and directions of the grid"""
    worst = 0.0
    ths = [TH[0] + i * TH[1] for i in range(TH[2])]
    phs = [PH[0] + i * PH[1] for i in range(PH[2])]
    lo = 0.0
    for p in topo.pulses:
        x, y, z = p.pt
        for th in ths:
            t4 = z * math.tan(math.radians(th))
            for ph in phs:
                cx = x + t4 * math.cos(math.radians(ph))
                cy = y + t4 * math.sin(math.radians(ph))
                v = math.hypot(cx, cy) if circular else cx
                worst = max(worst, v)
                lo = min(lo, v)
    return worst, lo


def on_interface(topo, media, circular, lam):
    """True if, for a direction of the grid, the specular reflection point of a pulse lies on an interface (within
    1e-7 wavelength): which medium it belongs to is then decided by rounding"""
    coords = [m_['coord'] for m_ in media[:-1] if 'coord' in m_]
    if not coords:
        return False
    ths = [TH[0] + i * TH[1] for i in range(TH[2])]
    phs = [PH[0] + i * PH[1] for i in range(PH[2])]
    tol = 1e-7 * lam
    for p in topo.pulses:
        x, y, z = p.pt
        for th in ths:
            t4 = z * math.tan(math.radians(th))
            for ph in phs:
                cx = x + t4 * math.cos(math.radians(ph))
                cy = y + t4 * math.sin(math.radians(ph))
                v = math.hypot(cx, cy) if circular else cx
                if any(abs(v - c_) <= tol for c_ in coords):
                    return True
    return False


def check(case):
    global TH
    TH = TH_BOTH if case.get('over_the_top') else TH_POS
    why = rules.check(case)
    if why:
        return Result(skipped=why)
    labels = common.base_labels(case)
    if case.get('over_the_top'):
        labels.append('negative-zenith-angles')
    env = case['env']
    media = env['media']
    try:
        m = common.solved(case)
        ideal = copy.deepcopy(case)
        ideal['env'] = {'kind': 'ideal'}
        mi = common.solved(ideal)
    except build.Rejected as e:
        return Result(skipped='rejected: ' + str(e)[:50])
    if not common.net_power_ok(m):
        return Result(skipped='sources deliver no net power')
    topo = build.ref_topology(case, m)
    circular = env.get('boundary') == 'circular' or bool(env.get('radials'))
    if on_interface(topo, media, circular, 299.8 / case['f']):
        return Result(skipped='a reflection point lies on an interface (medium decided by rounding)')
    hi, lo = reflection_extent(topo, circular)
    if max(abs(hi), abs(lo)) > 9e5:
        # the last medium ends at the program's "infinity" of 1e6 m (documented default of the interface coordinate);
        # kilometre-high structures at 10 kHz reflect beyond it
        return Result(skipped='reflection points beyond 1e6 m (the documented extent of the last medium)')
    nt = False
    if len(media) >= 2:
        labels.append('media>=2')
        if lo < media[0]['coord'] < hi or any(lo < mm_.get('coord', 1e99) < hi for mm_ in media[:-1]):
            labels.append('boundary-crossed')
            nt = True
    if env.get('radials'):
        labels.append('radials')
        nt = True
    if circular:
        labels.append('circular')
    if case.get('loads'):
        labels.append('loaded')
        if any(topo.pulses[a].kind == 'gnd' for l in case['loads'] for a in l.get('attach', []) if isinstance(a, int)):
            labels.append('load-on-gnd')
    fails = []
    # (a) currents
    Ia, Ib = np.array(m.current), np.array(mi.current)
    err = np.abs(Ia - Ib).max() / np.abs(Ib).max()
    if err > 1e-12:
        fails.append(('currents-depend-on-ground-constants', 'currents differ from ideal ground by %.3g' % err))
    g0 = pattern(m)
    gi = pattern(mi)
    # (b) conductivity sweep
    prev = None
    seq = []
    for sg in (1e2, 1e4, 1e6, 1e8, 1e10, 1e12):
        c2 = copy.deepcopy(case)
        for md in c2['env']['media']:
            md['sigma'] = sg
            md['height'] = 0.0
        # within 40 dB of the maximum: the position of deep nulls moves with the ground constants
        d = maxdiff(gi, pattern(common.solved(c2)), top=40)
        seq.append(d)
        # monotone once the ground is a good conductor (loss tangent >> 1 for every drawn frequency and permittivity)
        # (not asserted for a ground screen of wires thicker than 1e-3 wavelength: the screen formula's
        # ln(spacing / 2 pi radius) is then negative out to many wavelengths, its capacitive impedance resonates
        # with the inductive surface impedance of the soil and the approach to the limit is not monotone)
        thick_screen = bool(env.get('radials')) and env['radials']['r'] > 1e-3 * 299.8 / case['f']
        if prev is not None and sg >= 1e6 and d > prev * 1.1 + 1e-9 and not thick_screen:
            fails.append(('sigma-sweep:not-monotone', 'max gain difference to ideal ground for sigma 1e2..: %s' % seq))
            break
        prev = d
    # surface impedance falls as 1/sqrt(sigma): a factor 10 per two decades once it is small
    if seq and len(seq) == 6 and (seq[-1] > 0.02 or (seq[-1] > 1e-6 and seq[-1] > seq[-3] / 50.0)):
        fails.append(('sigma-sweep:limit', 'at sigma = 1e12 the pattern still differs from ideal ground by %.3g dB (%s)' % (seq[-1], seq)))
    # (c) split a medium
    sp = case['split']
    i = sp['which']
    lam_ = 299.8 / case['f']
    degenerate = i == 0 and len(media) > 1 and circular and media[0]['coord'] == 0
    if not (i == 0 and env.get('radials')) and not degenerate:
        c3 = copy.deepcopy(case)
        ms = c3['env']['media']
        prevc = ms[i - 1]['coord'] if i > 0 else 0.0
        if i == 0 and len(ms) > 1 and not circular:
            # the first medium of a linear layout reaches from minus infinity to its interface
            cut = ms[0]['coord'] - (abs(ms[0]['coord']) + lam_) * sp['frac']
        elif i < len(ms) - 1:
            cut = prevc + (ms[i]['coord'] - prevc) * sp['frac']
        else:
            cut = prevc + sp['beyond']
        new = dict(ms[i])
        first = dict(ms[i], coord=gen.r6(cut))
        ms[i:i + 1] = [first, new]
        if len(ms) > 1 and 'boundary' not in c3['env']:
            c3['env']['boundary'] = 'linear'
        try:
            d = maxdiff(pattern(common.solved(c3)), g0)
            if d > 1e-9:
                fails.append(('split-medium', 'splitting medium %d at %g changes the pattern by %.3g dB' % (i + 1, cut, d)))
        except build.Rejected as e:
            fails.append(('split-medium:rejected', str(e)[:150]))
    # (d) far medium
    c4 = copy.deepcopy(case)
    ms = c4['env']['media']
    far = max(hi, ms[-2]['coord'] if len(ms) > 1 else 0.0) * 1.001 + 1e-6 * gen.C_MHZ_M / case['f']
    ms[-1]['coord'] = gen.r6(far)
    ms.append(dict(case['far_add']))
    try:
        d = maxdiff(pattern(common.solved(c4)), g0)
        if d > 1e-9:
            fails.append(('far-medium', 'a further medium beyond every reflection point (boundary at %g, reflection '
                          'points up to %g) changes the pattern by %.3g dB' % (far, hi, d)))
    except build.Rejected as e:
        fails.append(('far-medium:rejected', str(e)[:150]))
    # (g) reference model of the reflection-coefficient approximation (Fresnel coefficients from the surface
    # impedance of the medium under the specular point, radial screen on the first medium, lower media, perfect
    # image for the lowest half segment of grounded wires), written independently in pv/ref/fields.py
    try:
        from ..ref import fields as rf
        A = build.mm.Angle
        m.compute_far_field(A(*TH), A(*PH), dist=1.0)
        et, ep = np.array(m.far_field.e_theta).T, np.array(m.far_field.e_phi).T
        zen, azi = np.array(m.far_field.zen).T, np.array(m.far_field.azi).T
        kk = 2 * math.pi * case['f'] / 299.8
        mx = max(np.abs(et).max(), np.abs(ep).max())
        worst = 0.0
        Ic = np.array(m.current)
        for ix in list(np.ndindex(et.shape))[::5]:
            a_, b_ = rf.far_field_real_ground(topo, Ic, kk, case['f'], float(zen[ix]), float(azi[ix]), media, circular, env.get('radials'))
            worst = max(worst, abs(a_ - et[ix]) / mx, abs(b_ - ep[ix]) / mx)
        if worst > 1e-6:
            fails.append(('reference-model:fresnel', 'far field over real ground differs from the reference reflection-coefficient '
                          'model by %.3g of the pattern maximum' % worst))
    except Exception as e:          # pragma: no cover - harness problem, not a verdict
        fails.append(('harness:reference-model', repr(e)[:200]))
    # each of the following relations involves a new solve whose currents may differ within the tolerance of the
    # invariance properties (C05); the gain tolerance follows from it, including the amplification through the net
    # power of reactive feeds
    tolsym = common.gain_tol_db((m,), common.gate(common.cond(m)) or 5e-4)
    # (e) symmetries of the documented media layout: concentric media (circular boundary, radial screen)
    # are rotationally symmetric about the z axis; media allocated along X do not depend on y, and a shift
    # along x together with all boundaries leaves the pattern unchanged
    keys = [x['key'] for x in case['xforms']] + [0]
    k0 = max(keys) + 1
    sym = case.get('sym') or {}
    if circular:
        kk = int(sym.get('rot_steps', 1))
        c5 = copy.deepcopy(case)
        c5['xforms'].append({'kind': 'rotate', 'key': k0, 'v': [0.0, 0.0, PH[1] * kk], 'tag': None})
        try:
            g5 = pattern(common.solved(c5))
            d = maxdiff(np.roll(g0, kk, axis=1), g5, top=40)
            if d > tolsym:
                fails.append(('symmetry:rotation-circular', 'rotating the antenna by %g deg about z over concentric media '
                              'changes the (rotated) pattern by %.3g dB' % (PH[1] * kk, d)))
        except build.Rejected:
            pass
    else:
        lam = gen.C_MHZ_M / case['f']
        dy = float(sym.get('dy', 0.7)) * lam
        c5 = copy.deepcopy(case)
        c5['xforms'].append({'kind': 'translate', 'key': k0, 'v': [0.0, dy, 0.0], 'tag': None})
        dx = float(sym.get('dx', 0.4)) * lam
        c6 = copy.deepcopy(case)
        c6['xforms'].append({'kind': 'translate', 'key': k0, 'v': [dx, 0.0, 0.0], 'tag': None})
        for md in c6['env']['media'][:-1]:
            md['coord'] = md['coord'] + dx
        try:
            d = maxdiff(g0, pattern(common.solved(c5)), top=40)
            if d > tolsym:
                fails.append(('symmetry:y-shift-linear', 'shifting the antenna along y over media allocated along x changes the pattern by %.3g dB' % d))
            d = maxdiff(g0, pattern(common.solved(c6)), top=40)
            if d > tolsym:
                fails.append(('symmetry:x-shift-with-boundaries', 'shifting antenna and all boundaries along x changes the pattern by %.3g dB' % d))
        except build.Rejected:
            pass
    # (f) electromagnetic scaling including the ground: lengths * s, f / s, sigma / s
    s_ = float(sym.get('scale', 2.0))
    c7 = copy.deepcopy(case)
    c7['f'] = case['f'] / s_
    c7['scales'] = list(c7.get('scales') or []) + [{'f': s_, 'tag': None}]
    for o in c7['objs']:
        if o['type'] == 'wire' and o.get('taper'):
            for kx in ('tmin', 'tmax'):
                if o.get(kx) is not None:
                    o[kx] = o[kx] * s_
    for md in c7['env']['media']:
        md['sigma'] = md['sigma'] / s_
        md['height'] = md.get('height', 0.0) * s_
        if 'coord' in md:
            md['coord'] = md['coord'] * s_
    if c7['env'].get('radials'):
        c7['env']['radials'] = dict(c7['env']['radials'], r=c7['env']['radials']['r'] * s_)
    for l in c7.get('loads') or []:
        # loads keep their impedance: inductances and capacitances scale with the lengths, wire conductivity like sigma
        if l['kind'] == 'rlc':
            for kx in ('L', 'C'):
                if l.get(kx) is not None:
                    l[kx] = l[kx] * s_
        elif l['kind'] == 'skin_c':
            l['v'] = l['v'] / s_
    try:
        if max(abs(hi), abs(lo)) * s_ > 9e5:
            raise build.Rejected('scaled reflection points beyond 1e6 m')
        d = maxdiff(g0, pattern(common.solved(c7)), top=40)
        if d > tolsym:
            fails.append(('symmetry:em-scaling', 'scaling all lengths by %g, frequency and conductivities by 1/%g changes the pattern by %.3g dB' % (s_, s_, d)))
    except build.Rejected:
        pass
    return Result(fails=fails, nontrivial=nt, labels=sorted(set(labels)))
