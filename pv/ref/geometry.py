"""Reference geometry: segment end points of wires, arcs and helices and the
documented transformations, written from README / class docstrings only.
Imports nothing from mininec.

A *case* describes objects as dicts:
  wire : {type:'wire', n, p1:[x,y,z], p2:[x,y,z], r, tag|None, taper:0..3, tmin|None, tmax|None}
  arc  : {type:'arc',  n, R, a1, a2, r, tag|None}
  helix: {type:'helix',n, len, turn, r, rx1, ry1, rx2|None, ry2|None, tag|None}
and transformations
  {kind:'rotate'|'translate', key:float, v:[a,b,c], tag|None}, scales {f:float, tag|None}
"""
import math
import numpy as np

TYPE_ORDER = {'arc': 0, 'helix': 1, 'wire': 2}


def rot_matrix(ang_deg):
    """X, then Y, then Z rotation about the fixed axes (NEC GM order)."""
    ax, ay, az = (a / 180.0 * math.pi for a in ang_deg)
    rx = np.array([[1, 0, 0], [0, math.cos(ax), -math.sin(ax)], [0, math.sin(ax), math.cos(ax)]])
    ry = np.array([[math.cos(ay), 0, math.sin(ay)], [0, 1, 0], [-math.sin(ay), 0, math.cos(ay)]])
    rz = np.array([[math.cos(az), -math.sin(az), 0], [math.sin(az), math.cos(az), 0], [0, 0, 1]])
    return rz @ ry @ rx


def arc_points(o):
    n = o['n']
    a1 = o['a1'] / 180.0 * math.pi
    a2 = o['a2'] / 180.0 * math.pi
    pts = []
    for i in range(n + 1):
        a = a1 + (a2 - a1) * i / n
        pts.append([o['R'] * math.cos(a), 0.0, o['R'] * math.sin(a)])
    return np.array(pts)


def helix_points(o):
    n = o['n']
    length, turn = o['len'], o['turn']
    rx1, ry1 = o['rx1'], o['ry1']
    rx2 = o['rx2'] if o.get('rx2') is not None else rx1
    ry2 = o['ry2'] if o.get('ry2') is not None else ry1
    s = 1.0 if length * turn > 0 else -1.0
    pts = []
    for i in range(n + 1):
        f = i / n
        z = f * abs(length)
        xm = rx1 + f * (rx2 - rx1)
        ym = ry1 + f * (ry2 - ry1)
        # angle advances by 2 pi per |turn| of height; right-handed iff signs equal
        a = s * 2 * math.pi * z / abs(turn)
        if length > 0:
            x, y = xm * math.cos(a), ym * math.sin(a)
        else:
            x, y = -xm * math.sin(a), ym * math.cos(a)
        pts.append([x, y, z])
    return np.array(pts)


def order_objects(objs):
    """Objects in program order: arcs, helices, wires (each in input order),
    automatic tags continue after the largest explicit tag, then sort by tag.
    Returns list of (tag, obj) and raises ValueError for duplicate/non-positive tags."""
    seq = sorted(range(len(objs)), key=lambda i: (TYPE_ORDER[objs[i]['type']], i))
    seen = set()
    for i in seq:
        t = objs[i].get('tag')
        if t is not None:
            if t <= 0 or t in seen:
                raise ValueError('bad tag')
            seen.add(t)
    mx = max(seen) if seen else 0
    out = []
    for i in seq:
        t = objs[i].get('tag')
        if t is None:
            mx += 1
            t = mx
        out.append((t, objs[i]))
    out.sort(key=lambda x: x[0])
    return out


def base_points(o):
    if o['type'] == 'wire':
        return np.array([o['p1'], o['p2']], dtype=float)
    if o['type'] == 'arc':
        return arc_points(o)
    return helix_points(o)


def transformed(case):
    """Returns list of dict(tag, obj, pts (end points for wires, all segment
    ends for curves), r) in tag order after applying the transformations."""
    tagged = order_objects(case['objs'])
    items = [dict(tag=t, obj=o, pts=base_points(o), r=float(o['r'])) for t, o in tagged]
    xf = list(case.get('xforms') or [])
    # stable sort by key; the program lists all rotations before all translations
    xf = sorted(enumerate(xf), key=lambda ix: (ix[1]['key'], 0 if ix[1]['kind'] == 'rotate' else 1, ix[0]))
    for _, x in xf:
        for it in items:
            if x.get('tag') is not None and it['tag'] != x['tag']:
                continue
            if x['kind'] == 'rotate':
                it['pts'] = (rot_matrix(x['v']) @ it['pts'].T).T
            else:
                it['pts'] = it['pts'] + np.array(x['v'], dtype=float)
    for s in case.get('scales') or []:
        for it in items:
            if s.get('tag') is not None and it['tag'] != s['tag']:
                continue
            it['pts'] = it['pts'] * s['f']
            it['r'] = it['r'] * s['f']
    return items


def equal_segments(p1, p2, n):
    p1 = np.asarray(p1, float)
    p2 = np.asarray(p2, float)
    return np.array([p1 + (p2 - p1) * i / n for i in range(n + 1)])
