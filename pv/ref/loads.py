"""Reference circuit formulas for loads (DESIGN.md 4.4).  Imports nothing from mininec."""
import math
import cmath

MU0 = 4e-7 * math.pi          # the program uses 1.25663706127e-6 (CODATA 2022), relative difference 1e-10


def lumped(l, f_mhz):
    w = 2 * math.pi * f_mhz * 1e6
    s = 1j * w
    k = l['kind']
    if k == 'z':
        return complex(l['z'][0], l['z'][1])
    if k == 'rlc':
        z = complex(l.get('R') or 0.0)
        if l.get('L'):
            z += s * l['L']
        if l.get('C'):
            z += 1 / (s * l['C'])
        return z
    if k == 'trap':
        z1 = l['R'] + s * l['L']
        z2 = 1 / (s * l['C'])
        return z1 * z2 / (z1 + z2)
    if k == 'laplace':
        num = sum(c * s ** i for i, c in enumerate(l['b']))
        den = sum(c * s ** i for i, c in enumerate(l['a']))
        return num / den
    raise ValueError(k)


def skin_per_length(f_mhz, radius, sigma):
    """internal impedance per unit length of a round wire, exact Bessel form (mpmath)"""
    import mpmath as mp
    mp.mp.dps = 40
    w = 2 * mp.pi * f_mhz * 1e6
    k = mp.sqrt(-1j * w * mp.mpf(MU0) * sigma)
    ka = k * radius
    z = k / (2 * mp.pi * radius * sigma) * mp.besselj(0, ka) / mp.besselj(1, ka)
    return complex(z), float(abs(ka))


def insulation_per_length(f_mhz, a, b, eps_r):
    w = 2 * math.pi * f_mhz * 1e6
    return 1j * w * MU0 / (2 * math.pi) * (1 - 1 / eps_r) * math.log(b / a)


def equivalent_radius(a, b, eps_r):
    return b * (a / b) ** (1.0 / eps_r)
