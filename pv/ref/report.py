"""Line-oriented parser for the MININEC-style report, written from the column
layout of the golden files (not by calling the writers).  Strict: an
unexpected line raises ParseError, so 'parses completely' is meaningful."""
import re
import math


class ParseError(Exception):
    pass


NUM = r'[-+]?(?:\d+\.?\d*|\.\d+)(?:[Ee][-+]?\d+)?'
_num_re = re.compile('^' + NUM + '$')
_bad_re = re.compile(r'(?i)\b(nan|inf|infinity)\b')


def num(tok):
    tok = tok.strip()
    if not _num_re.match(tok):
        raise ParseError('not a number: %r' % tok)
    return float(tok)


def nums(s):
    return [num(t) for t in s.split()]


class Lines:
    def __init__(self, text):
        self.l = text.split('\n')
        self.i = 0

    def peek(self):
        return self.l[self.i] if self.i < len(self.l) else None

    def next(self):
        if self.i >= len(self.l):
            raise ParseError('unexpected end of report')
        self.i += 1
        return self.l[self.i - 1]

    def skip_blank(self):
        while self.i < len(self.l) and not self.l[self.i].strip():
            self.i += 1

    def expect(self, rx):
        line = self.next()
        m = re.match(rx, line)
        if not m:
            raise ParseError('line %d: expected /%s/ got %r' % (self.i, rx, line))
        return m

    def eof(self):
        self.skip_blank()
        return self.i >= len(self.l)


STARS = r'\*{20}'


def parse_header(L, rep):
    L.skip_blank()
    L.expect(r'^ {19}\*{40}$')
    L.expect(r'^ {21}MINI-NUMERICAL ELECTROMAGNETICS CODE$')
    L.expect(r'^ {35}MININEC$')
    if re.match(r'^ {23}\d\d-\d\d-\d\d', L.peek() or ''):
        L.next()
    L.expect(r'^ {19}\*{40}$')


def parse_frequency(L, rep):
    L.skip_blank()
    m = L.expect(r'^FREQUENCY \(MHZ\): (\S+)$')
    rep['frequency'] = num(m.group(1))
    m = L.expect(r'^    WAVE LENGTH =  (\S+)  METERS$')
    rep['wavelength'] = num(m.group(1))


def parse_environment(L, rep):
    L.skip_blank()
    m = L.expect(r'^ENVIRONMENT \(\+1 FOR FREE SPACE, -1 FOR GROUND PLANE\): ([-+]1)$')
    rep['environment'] = int(m.group(1))
    rep['media'] = []
    rep['nmedia'] = None
    rep['boundary'] = None
    if rep['environment'] < 0:
        m = L.expect(r'^ NUMBER OF MEDIA \(0 FOR PERFECTLY CONDUCTING GROUND\): +(\d+)$')
        rep['nmedia'] = int(m.group(1))
        if rep['nmedia'] > 1:
            m = L.expect(r'^ TYPE OF BOUNDARY \(1-LINEAR, 2-CIRCULAR\):  ([12])$')
            rep['boundary'] = int(m.group(1))
        for k in range(rep['nmedia']):
            med = {}
            m = L.expect(r'^ RELATIVE DIELECTRIC CONSTANT, CONDUCTIVITY:  (\S+) , (\S+)$')
            med['eps'], med['sigma'] = num(m.group(1)), num(m.group(2))
            while True:
                p = L.peek() or ''
                m = re.match(r'^ NUMBER OF RADIAL WIRES IN GROUND SCREEN: +(-?\d+)$', p)
                if m:
                    med['nradials'] = int(m.group(1))
                    L.next()
                    continue
                m = re.match(r'^ RADIUS OF RADIAL WIRES:  (\S+)$', p)
                if m:
                    med['radial_radius'] = num(m.group(1))
                    L.next()
                    continue
                m = re.match(r'^ X OR R COORDINATE OF NEXT MEDIA INTERFACE:  (\S+)$', p)
                if m:
                    med['coord'] = num(m.group(1))
                    L.next()
                    continue
                m = re.match(r'^ HEIGHT OF MEDIA: (\S+)$', p)
                if m:
                    med['height'] = num(m.group(1))
                    L.next()
                    continue
                break
            rep['media'].append(med)


def parse_wires(L, rep):
    L.skip_blank()
    m = L.expect(r'^NO\. OF GEO-OBJECTS: (\d+)$')
    n = int(m.group(1))
    rep['n_objects'] = n
    rep['objects'] = []
    for k in range(n):
        L.skip_blank()
        m = L.expect(r'^(WIRE|ARC|HELIX) NO\. (\d+)$')
        o = {'name': m.group(1), 'tag': int(m.group(2))}
        L.expect(r'^ {12}COORDINATES {33}END {9}NO\. OF$')
        L.expect(r'^   X {13}Y {13}Z {10}RADIUS {5}CONNECTION {5}SEGMENTS$')
        line = L.next()
        v = nums(line)
        if len(v) != 4:
            raise ParseError('object end-1 line: %r' % line)
        o['p1'], o['conn1'] = v[:3], int(v[3])
        line = L.next()
        v = nums(line)
        if len(v) != 6:
            raise ParseError('object end-2 line: %r' % line)
        o['p2'], o['radius'], o['conn2'], o['nseg'] = v[:3], v[3], int(v[4]), int(v[5])
        rep['objects'].append(o)
    L.skip_blank()
    L.expect(r'^ {18}\*\*\*\* ANTENNA GEOMETRY \*\*\*\*$')
    rep['geometry'] = []
    for k in range(n):
        L.skip_blank()
        m = L.expect(r'^(WIRE|ARC|HELIX) NO\. +(\d+) COORDINATES +CONNECTION PULSE$')
        g = {'name': m.group(1), 'tag': int(m.group(2)), 'rows': [], 'empty': False}
        L.expect(r'^X {13}Y {13}Z {13}RADIUS {8}END1 END2  NO\.$')
        while True:
            p = L.peek()
            if p is None or not p.strip():
                break
            if re.match(r'^- +- +- +- +- +- +0 *$', p):
                g['empty'] = True
                L.next()
                continue
            if re.match(r'^(NO\. OF SOURCES|WIRE|ARC|HELIX)', p):
                break
            v = nums(p)
            if len(v) != 7:
                raise ParseError('geometry row: %r' % p)
            g['rows'].append({'p': v[:3], 'radius': v[3], 'c1': int(v[4]), 'c2': int(v[5]), 'no': int(v[6])})
            L.next()
        rep['geometry'].append(g)


def parse_sources_loads(L, rep):
    L.skip_blank()
    m = L.expect(r'^NO\. OF SOURCES : +(\d+)$')
    rep['n_sources'] = int(m.group(1))
    rep['sources_listing'] = []
    for k in range(rep['n_sources']):
        m = L.expect(r'^PULSE NO\., VOLTAGE MAGNITUDE, PHASE \(DEGREES\): *(\S+) ,\s*(\S+) ,\s*(\S+)$')
        rep['sources_listing'].append((int(num(m.group(1))), num(m.group(2)), num(m.group(3))))
    m = L.expect(r'^NUMBER OF LOADS (\d+)$')
    rep['n_loads'] = int(m.group(1))
    rep['loads'] = []
    while True:
        p = L.peek()
        if p is None:
            break
        if not p.strip():
            # a load attached to an object without pulses prints an empty line
            j = L.i
            while j < len(L.l) and not L.l[j].strip():
                j += 1
            if j < len(L.l) and L.l[j].startswith('PULSE NO.,'):
                L.i = j
                continue
            break
        m = re.match(r'^PULSE NO\.,RESISTANCE,REACTANCE: +(\d+) , +(\S+) +, +(\S+) *$', p)
        if m:
            rep['loads'].append({'pulse': int(m.group(1)), 'r': num(m.group(2)), 'x': num(m.group(3))})
            L.next()
            continue
        m = re.match(r'^PULSE NO\., ORDER OF S-PARAMETER FUNCTION:  (\d+) , (\d+)$', p)
        if m:
            ld = {'pulse': int(m.group(1)), 'order': int(m.group(2)), 'coef': []}
            L.next()
            for d in range(ld['order'] + 1):
                mm_ = L.expect(r'^NUMERATOR, DENOMINATOR COEFFICIENTS OF S\^(\d+) : (\S+) , (\S+)$')
                if int(mm_.group(1)) != d:
                    raise ParseError('laplace order line')
                ld['coef'].append((num(mm_.group(2)), num(mm_.group(3))))
            rep['loads'].append(ld)
            continue
        break


def cpair(a, b):
    return complex(num(a), num(b))


def parse_source_data(L, rep):
    L.skip_blank()
    L.expect(r'^' + STARS + r'    SOURCE DATA     ' + STARS + '$')
    rep['source_data'] = []
    while True:
        p = L.peek()
        if p is None or not p.startswith('PULSE '):
            break
        m = L.expect(r'^PULSE +(\d+) +VOLTAGE = \( (\S+) , (\S+) J\)$')
        s = {'pulse': int(m.group(1)), 'v': cpair(m.group(2), m.group(3))}
        m = L.expect(r'^ {14}CURRENT = \( ?(\S+) +, +(\S+) +J\)$')
        s['i'] = cpair(m.group(1), m.group(2))
        m = L.expect(r'^ {14}IMPEDANCE = \( ?(\S+) +, +(\S+) +J\)$')
        s['z'] = cpair(m.group(1), m.group(2))
        m = L.expect(r'^ {14}POWER = +(\S+) +WATTS$')
        s['p'] = num(m.group(1))
        rep['source_data'].append(s)


def parse_currents(L, rep):
    L.skip_blank()
    L.expect(r'^' + STARS + r'    CURRENT DATA    ' + STARS + '$')
    L.skip_blank()
    rep['currents'] = []
    while True:
        p = L.peek()
        if p is None:
            break
        m = re.match(r'^(WIRE|ARC|HELIX) NO\. +(\d+) :$', p)
        if not m:
            break
        L.next()
        blk = {'name': m.group(1), 'tag': int(m.group(2)), 'rows': []}
        L.expect(r'^PULSE {9}REAL {10}IMAGINARY {5}MAGNITUDE {5}PHASE$')
        L.expect(r'^ NO\. {10}\(AMPS\) {8}\(AMPS\) {8}\(AMPS\) {8}\(DEGREES\)$')
        while True:
            p = L.peek()
            if p is None or not p.strip():
                break
            if re.match(r'^(WIRE|ARC|HELIX) NO\.', p):
                break
            if p.startswith('E '):
                v = nums(p[1:])
                if len(v) != 4:
                    raise ParseError('E row %r' % p)
                blk['rows'].append(('E',) + tuple(v))
            elif p.startswith('J '):
                v = nums(p[1:])
                if len(v) != 4:
                    raise ParseError('J row %r' % p)
                blk['rows'].append(('J',) + tuple(v))
            else:
                v = nums(p)
                if len(v) != 5 or v[0] != int(v[0]):
                    raise ParseError('current row %r' % p)
                blk['rows'].append((int(v[0]),) + tuple(v[1:]))
            L.next()
        rep['currents'].append(blk)


def parse_far(L, rep):
    L.expect(r'^' + STARS + r'     FAR FIELD      ' + STARS + '$')
    L.skip_blank()
    ff = {}
    p = L.peek() or ''
    m = re.match(r'^NEW POWER LEVEL = +(\S+)$', p)
    if m:
        ff['new_power'] = num(m.group(1))
        L.next()
    m = L.expect(r'^ZENITH ANGLE : INITIAL,INCREMENT,NUMBER: ?(\S+) , ?(\S+) , ?(\S+)$')
    ff['zen'] = (num(m.group(1)), num(m.group(2)), int(num(m.group(3))))
    m = L.expect(r'^AZIMUTH ANGLE: INITIAL,INCREMENT,NUMBER: ?(\S+) , ?(\S+) , ?(\S+)$')
    ff['azi'] = (num(m.group(1)), num(m.group(2)), int(num(m.group(3))))
    L.skip_blank()
    L.expect(r'^' + STARS + r'    PATTERN DATA    ' + STARS + '$')
    p = L.peek() or ''
    if p.startswith(' ' * 14 + 'RADIAL DISTANCE'):
        m = L.expect(r'^ {14}RADIAL DISTANCE = +(\S+) +METERS$')
        ff['dist'] = num(m.group(1))
        m = L.expect(r'^ {14}POWER LEVEL = +(\S+) +WATTS$')
        ff['power'] = num(m.group(1))
        L.expect(r'^ZENITH   AZIMUTH {17}E\(THETA\) {20}E\(PHI\)$')
        L.expect(r'^ ANGLE    ANGLE {14}MAG\(V/M\)    PHASE\(DEG\)      MAG\(V/M\)    PHASE\(DEG\)$')
        ff['rows'] = []
        while True:
            p = L.peek()
            if p is None or not p.strip() or p.startswith('*'):
                break
            v = nums(p)
            if len(v) != 6:
                raise ParseError('V/m row %r' % p)
            ff['rows'].append(tuple(v))
            L.next()
        rep['far_abs'] = ff
    else:
        L.expect(r'^ZENITH {8}AZIMUTH {7}VERTICAL {6}HORIZONTAL {4}TOTAL$')
        L.expect(r'^ ANGLE {9}ANGLE {8}PATTERN \(DB\)  PATTERN \(DB\)  PATTERN \(DB\)$')
        ff['rows'] = []
        while True:
            p = L.peek()
            if p is None or not p.strip() or p.startswith('*'):
                break
            v = nums(p)
            if len(v) != 5:
                raise ParseError('dB row %r' % p)
            ff['rows'].append(tuple(v))
            L.next()
        rep['far_db'] = ff


def parse_near_header(L, rep):
    L.expect(r'^' + STARS + r'    NEAR FIELDS     ' + STARS + '$')
    L.skip_blank()
    hdr = {}
    for ax in 'XYZ':
        m = L.expect(r'^' + ax + r'-COORDINATE \(M\): INITIAL,INCREMENT,NUMBER : +(\S+) , +(\S+) , +(\S+)$')
        hdr[ax] = (num(m.group(1)), num(m.group(2)), int(num(m.group(3))))
    L.skip_blank()
    p = L.peek() or ''
    m = re.match(r'^NEW POWER LEVEL \(WATTS\) = +(\S+)$', p)
    if m:
        hdr['power'] = num(m.group(1))
        L.next()
    return hdr


def parse_near_blocks(L, kind):
    title = 'NEAR ELECTRIC FIELDS' if kind == 'E' else 'NEAR MAGNETIC FIELDS'
    unit = r'V/M' if kind == 'E' else r'AMPS/M'
    out = []
    while True:
        L.skip_blank()
        p = L.peek()
        if p is None or p != '*' * 20 + title + '*' * 20:
            break
        L.next()
        m = L.expect(r'^ {9}FIELD POINT: X = +(\S+) +Y = +(\S+) +Z = +(\S+) *$')
        b = {'point': (num(m.group(1)), num(m.group(2)), num(m.group(3))), 'comps': {}}
        L.expect(r'^  VECTOR {6}REAL {10}IMAGINARY {5}MAGNITUDE {5}PHASE$')
        L.expect(r'^ COMPONENT +' + unit + ' +' + unit + ' +' + unit + ' +DEG$')
        for ax in 'XYZ':
            line = L.next()
            if not line.startswith('   ' + ax + ' '):
                raise ParseError('near field component line %r' % line)
            v = nums(line[4:])
            if len(v) != 4:
                raise ParseError('near field component line %r' % line)
            b['comps'][ax] = tuple(v)
        m = L.expect(r'^   MAXIMUM OR PEAK FIELD = +(\S+) +' + unit + '$')
        b['peak'] = num(m.group(1))
        out.append(b)
    return out


def parse_fields(L, rep):
    while not L.eof():
        p = L.peek()
        if p == '*' * 20 + '     FAR FIELD      ' + '*' * 20:
            parse_far(L, rep)
        elif p == '*' * 20 + '    NEAR FIELDS     ' + '*' * 20:
            hdr = parse_near_header(L, rep)
            L.skip_blank()
            nxt = L.peek() or ''
            if 'ELECTRIC' in nxt:
                rep['near_hdr'] = hdr
                rep['near_e'] = parse_near_blocks(L, 'E')
            elif 'MAGNETIC' in nxt:
                rep['near_hdr_h'] = hdr
                rep['near_h'] = parse_near_blocks(L, 'H')
            else:
                # header with zero points
                rep.setdefault('near_hdr', hdr)
                rep.setdefault('near_e', [])
                if 'near_e_seen' in rep:
                    rep.setdefault('near_h', [])
                rep['near_e_seen'] = True
        else:
            raise ParseError('line %d: unexpected %r' % (L.i + 1, p))


def parse(text):
    """Parse a complete single-frequency report; raises ParseError otherwise."""
    rep = {}
    L = Lines(text.rstrip('\n'))
    parse_header(L, rep)
    parse_frequency(L, rep)
    parse_environment(L, rep)
    parse_wires(L, rep)
    parse_sources_loads(L, rep)
    parse_source_data(L, rep)
    parse_currents(L, rep)
    parse_fields(L, rep)
    return rep


def has_nonfinite(text):
    return bool(_bad_re.search(text))


def all_numbers_finite(rep):
    def walk(x):
        if isinstance(x, float):
            return math.isfinite(x)
        if isinstance(x, complex):
            return math.isfinite(x.real) and math.isfinite(x.imag)
        if isinstance(x, dict):
            return all(walk(v) for v in x.values())
        if isinstance(x, (list, tuple)):
            return all(walk(v) for v in x)
        return True
    return walk(rep)


def printed_close(printed, value, fixed=False):
    """the tolerance of C19: 5e-6 relative (seven digits), 5e-5 for magnitudes in [0.1, 1)
    (six digits), and 1e-6 absolute for fixed-point fields"""
    d = abs(printed - value)
    a = abs(value)
    if d <= 5e-6 * a:
        return True
    if 0.0999999 <= a < 1.0 and d <= 5e-5 * a:
        return True
    if fixed and d <= 1.0000001e-6:
        return True
    return False


def cprinted_close(printed, value, fixed=False):
    return printed_close(printed.real, value.real, fixed) and printed_close(printed.imag, value.imag, fixed)
