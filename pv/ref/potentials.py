"""Reference evaluation of the MININEC-3 impedance-matrix term between two pulses from their paths,
radii and the frequency alone (DESIGN.md 4.2).  Imports nothing from mininec."""
import numpy as np
from numpy.polynomial.legendre import leggauss
from scipy.integrate import quad

_X, _W = leggauss(96)
_X = (_X + 1) / 2
_W = _W / 2


def psi(obs, a, b, r, k, thin, adaptive=False):
    """integral over the straight line a->b of exp(-jkR)/R ds, R = distance to obs (thin wire) or
    sqrt(distance^2 + r^2) (radius larger than the small-radius limit)"""
    L = float(np.linalg.norm(b - a))
    if adaptive:
        def R(t):
            d = np.linalg.norm(a + (b - a) * t - obs)
            return d if thin else np.sqrt(d * d + r * r)
        re = quad(lambda t: np.cos(k * R(t)) / R(t), 0, 1, epsabs=1e-14, epsrel=1e-12, limit=200)[0]
        im = quad(lambda t: -np.sin(k * R(t)) / R(t), 0, 1, epsabs=1e-14, epsrel=1e-12, limit=200)[0]
        return (re + 1j * im) * L
    pts = a[None, :] + (b - a)[None, :] * _X[:, None]
    d2 = ((pts - obs[None, :]) ** 2).sum(axis=1)
    R = np.sqrt(d2) if thin else np.sqrt(d2 + r * r)
    return complex((np.exp(-1j * k * R) / R * _W).sum() * L)


def term(m, n, k, srm, adaptive=False):
    """F(m, n): observer path m, source path n (objects with e0, pt, e1, r0, r1).
    returns (value, scale) with scale = sum of the magnitudes of the potential terms with their factors"""
    L0 = float(np.linalg.norm(n.pt - n.e0))
    L1 = float(np.linalg.norm(n.e1 - n.pt))
    t0 = (n.pt - n.e0) / L0
    t1 = (n.e1 - n.pt) / L1
    mid0 = (n.pt + n.e0) / 2
    mid1 = (n.pt + n.e1) / 2
    th0 = n.r0 <= srm
    th1 = n.r1 <= srm
    pv = psi(m.pt, mid0, n.pt, n.r0, k, th0, adaptive)
    pu = psi(m.pt, n.pt, mid1, n.r1, k, th1, adaptive)
    test = m.e1 - m.e0
    A = k * k / 2 * ((pv * t0 + pu * t1) @ test)
    mp = (m.pt + m.e1) / 2
    mm = (m.pt + m.e0) / 2
    s1m = psi(mm, n.pt, n.e1, n.r1, k, th1, adaptive)
    s1p = psi(mp, n.pt, n.e1, n.r1, k, th1, adaptive)
    s0p = psi(mp, n.e0, n.pt, n.r0, k, th0, adaptive)
    s0m = psi(mm, n.e0, n.pt, n.r0, k, th0, adaptive)
    S = (s1m - s1p) / L1 + (s0p - s0m) / L0
    scale = (k * k / 2 * (abs(pv) * abs(t0 @ test) + abs(pu) * abs(t1 @ test))
             + (abs(s1m) + abs(s1p)) / L1 + (abs(s0p) + abs(s0m)) / L0)
    return A + S, scale
