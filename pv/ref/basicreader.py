"""Reader of the answer file for the original BASIC MININEC program, consuming the answers in the order
of the program's prompts as documented in the comments of the writer and visible in the stored .mini files.
Imports nothing from mininec.  Raises ReadError when an answer has the wrong type / is missing / is left over."""


class ReadError(Exception):
    pass


class Answers:
    def __init__(self, text):
        self.l = text.split('\n')
        while self.l and self.l[-1].strip() == '':
            self.l.pop()
        self.i = 0

    def next(self, what):
        if self.i >= len(self.l):
            raise ReadError('no answer left for prompt %r' % what)
        s = self.l[self.i]
        self.i += 1
        self.what = what
        return s.strip()

    def word(self, what, allowed):
        s = self.next(what).upper()
        if s not in allowed:
            raise ReadError('line %d: prompt %r expects one of %s, got %r' % (self.i, what, allowed, s))
        return s

    def floats(self, what, n):
        s = self.next(what)
        parts = [p.strip() for p in s.split(',')]
        if len(parts) != n:
            raise ReadError('line %d: prompt %r expects %d numbers, got %r' % (self.i, what, n, s))
        try:
            return [float(p) for p in parts]
        except ValueError:
            raise ReadError('line %d: prompt %r expects numbers, got %r' % (self.i, what, s))

    def integer(self, what):
        v = self.floats(what, 1)[0]
        if v != int(v):
            raise ReadError('line %d: prompt %r expects an integer, got %r' % (self.i, what, v))
        return int(v)


def read(text, version='9'):
    a = Answers(text)
    d = {}
    dev = a.word('OUTPUT TO CONSOLE, PRINTER, OR DISK (C/P/D)', ('C', 'P', 'D'))
    if dev == 'D':
        d['filename'] = a.next('FILENAME (NAME.OUT)')
        if not d['filename']:
            raise ReadError('empty file name')
    d['f'] = a.floats('FREQUENCY (MHZ)', 1)[0]
    env = a.next('ENVIRONMENT (+1 FOR FREE SPACE, -1 FOR GROUND PLANE)')
    if env not in ('+1', '1', '-1'):
        raise ReadError('environment answer %r' % env)
    d['ground'] = env == '-1'
    d['media'] = []
    d['boundary'] = None
    d['radials'] = None
    if d['ground']:
        nm = a.integer('NUMBER OF MEDIA (0 FOR PERFECTLY CONDUCTING GROUND)')
        if nm < 0:
            raise ReadError('negative number of media')
        tb = 1
        for i in range(nm):
            if i == 0 and nm > 1:
                tb = a.integer('TYPE OF BOUNDARY (1-LINEAR, 2-CIRCULAR)')
                if tb not in (1, 2):
                    raise ReadError('boundary type %r' % tb)
                d['boundary'] = tb
            eps, sig = a.floats('RELATIVE DIELECTRIC CONSTANT, CONDUCTIVITY', 2)
            med = {'eps': eps, 'sigma': sig, 'height': 0.0}
            if i > 0:
                med['height'] = a.floats('HEIGHT OF MEDIA', 1)[0]
            elif nm > 1 and tb == 2:
                nr = a.integer('NUMBER OF RADIAL WIRES IN GROUND SCREEN')
                if nr:
                    rr = a.floats('RADIUS OF RADIAL WIRES', 1)[0]
                    d['radials'] = {'n': nr, 'r': rr}
            if i < nm - 1:
                med['coord'] = a.floats('X OR R COORDINATE OF NEXT MEDIA INTERFACE', 1)[0]
            d['media'].append(med)
    nw = a.integer('NO. OF WIRES')
    if nw < 1:
        raise ReadError('number of wires %d' % nw)
    d['wires'] = []
    for w in range(nw):
        n = a.integer('NO. OF SEGMENTS')
        if n < 1:
            raise ReadError('wire %d: %d segments' % (w + 1, n))
        p1 = a.floats('END ONE COORDINATES (X,Y,Z)', 3)
        p2 = a.floats('END TWO COORDINATES (X,Y,Z)', 3)
        r = a.floats('RADIUS', 1)[0]
        a.word('CHANGE WIRE NO. x (Y/N)', ('N',))
        d['wires'].append({'n': n, 'p1': p1, 'p2': p2, 'r': r})
    a.word('CHANGE GEOMETRY (Y/N)', ('N',))
    ns = a.integer('NO. OF SOURCES')
    d['sources'] = []
    for s in range(ns):
        p, mag, ph = a.floats('PULSE NO., VOLTAGE MAGNITUDE, PHASE (DEGREES)', 3)
        if p != int(p) or p < 1:
            raise ReadError('source pulse number %r' % p)
        d['sources'].append({'pulse': int(p), 'mag': mag, 'phase_deg': ph})
    nl = a.integer('NUMBER OF LOADS')
    d['loads'] = []
    d['s_loads'] = None
    if nl:
        yn = a.word('S-PARAMETER (S=jw) IMPEDANCE LOAD (Y/N)', ('Y', 'N'))
        d['s_loads'] = yn == 'Y'
        for k in range(nl):
            if yn == 'N':
                p, r_, x_ = a.floats('PULSE NO.,RESISTANCE,REACTANCE', 3)
                if p != int(p) or p < 1:
                    raise ReadError('load pulse number %r' % p)
                d['loads'].append({'pulse': int(p), 'z': complex(r_, x_)})
            else:
                p, order = a.floats('PULSE NO., ORDER OF S-PARAMETER FUNCTION', 2)
                if p != int(p) or order != int(order) or p < 1 or order < 0:
                    raise ReadError('s-parameter load header %r %r' % (p, order))
                num, den = [], []
                for dd in range(int(order) + 1):
                    b_, a_ = a.floats('NUMERATOR, DENOMINATOR COEFFICIENTS OF S^%d' % dd, 2)
                    sc = 10.0 ** (6 * dd) if version == '9' else 1.0     # micro-henry / micro-farad up to version 9
                    num.append(b_ / sc)
                    den.append(a_ / sc)
                d['loads'].append({'pulse': int(p), 'b': num, 'a': den})
    d['commands'] = []
    while True:
        c = a.word('command (C/P/N/Q)', ('C', 'P', 'N', 'Q'))
        if c == 'Q':
            d['commands'].append(('Q',))
            break
        if c == 'C':
            a.word('SAVE CURRENTS TO A FILE (Y/N)', ('N',))
            d['commands'].append(('C',))
        elif c == 'P':
            kind = a.word('CALCULATE PATTERN IN DBI OR VOLTS/METER (D/V)', ('D', 'V'))
            ent = {'kind': kind}
            if kind == 'V':
                yn = a.word('CHANGE POWER LEVEL (Y/N)', ('Y', 'N'))
                if yn == 'Y':
                    ent['power'] = a.floats('NEW POWER LEVEL (WATTS)', 1)[0]
                    a.word('CHANGE POWER LEVEL (Y/N)', ('N',))
                ent['dist'] = a.floats('RADIAL DISTANCE (METERS)', 1)[0]
            ent['zen'] = a.floats('ZENITH ANGLE : INITIAL,INCREMENT,NUMBER', 3)
            ent['azi'] = a.floats('AZIMUTH ANGLE: INITIAL,INCREMENT,NUMBER', 3)
            yn = a.word('FILE PATTERN (Y/N)', ('Y', 'N'))
            if yn == 'Y':
                ent['file'] = a.next('FILENAME')
            d['commands'].append(('P', ent))
        else:
            kind = a.word('ELECTRIC OR MAGNETIC NEAR FIELDS (E/H)', ('E', 'H'))
            ent = {'kind': kind, 'axes': []}
            for ax in 'XYZ':
                v = a.floats('%s-COORDINATE (M): INITIAL,INCREMENT,NUMBER' % ax, 3)
                if v[2] != int(v[2]):
                    raise ReadError('near field count %r' % v[2])
                ent['axes'].append(v)
            yn = a.word('CHANGE POWER LEVEL (Y/N)', ('Y', 'N'))
            if yn == 'Y':
                ent['power'] = a.floats('NEW POWER LEVEL (WATTS)', 1)[0]
                a.word('CHANGE POWER LEVEL (Y/N)', ('N',))
            a.word('SAVE TO A FILE (Y/N)', ('N',))
            d['commands'].append(('N', ent))
    if a.i != len(a.l):
        raise ReadError('%d answers left over after Q: %r' % (len(a.l) - a.i, a.l[a.i:a.i + 3]))
    return d
