"""Reference field computations from the reference topology and the solved
pulse currents (DESIGN.md 4.3).  Imports nothing from mininec."""
import math
import numpy as np
from scipy.integrate import quad_vec

G0 = 29.979221            # eta / (2 pi), the constant the program documents
MIRROR = np.array([1.0, 1.0, -1.0])


def sph(theta_deg, phi_deg):
    t, p = math.radians(theta_deg), math.radians(phi_deg)
    rhat = np.array([math.sin(t) * math.cos(p), math.sin(t) * math.sin(p), math.cos(t)])
    that = np.array([math.cos(t) * math.cos(p), math.cos(t) * math.sin(p), -math.sin(t)])
    phat = np.array([-math.sin(p), math.cos(p), 0.0])
    return rhat, that, phat


def real_half_legs(topo):
    """yield (pulse idx, pulse point, leg start, leg end (half-way point), unit direction of the current,
    half length) for every *real* half segment a pulse spans (the image leg of a ground pulse is not real)"""
    for p in topo.pulses:
        if not (p.kind == 'gnd' and p.gnd_end == 0):
            # first leg e0 -> pt: the half next to the pulse point
            d = p.pt - p.e0
            L = np.linalg.norm(d)
            yield p.idx, p.pt, (p.e0 + p.pt) / 2, p.pt, d / L, L / 2
        if not (p.kind == 'gnd' and p.gnd_end == 1):
            d = p.e1 - p.pt
            L = np.linalg.norm(d)
            yield p.idx, p.pt, p.pt, (p.pt + p.e1) / 2, d / L, L / 2


def far_field(topo, current, k, theta_deg, phi_deg, ground=False, rule='point'):
    """returns (E_theta * r, E_phi * r) (complex, phase referred to the origin) for unit-less currents:
    E r = -j G0 * N . (theta^, phi^),  N = sum I * k * integral over the half legs of t exp(+j k r^.x) ds
    rule 'point': the whole moment of a half leg sits at the pulse point (MININEC); 'exact': straight-line
    integral over the half leg."""
    rhat, that, phat = sph(theta_deg, phi_deg)
    N = np.zeros(3, complex)
    for idx, pt, a, b, t, hl in real_half_legs(topo):
        I = current[idx]
        for img in ((False, True) if ground else (False,)):
            if img:
                tt = t * np.array([-1.0, -1.0, 1.0])
                pp, aa, bb = pt * MIRROR, a * MIRROR, b * MIRROR
            else:
                tt, pp, aa, bb = t, pt, a, b
            if rule == 'point':
                ph = np.exp(1j * k * (rhat @ pp))
            else:
                mid = (aa + bb) / 2
                u = k * (rhat @ (bb - aa)) / 2
                ph = np.exp(1j * k * (rhat @ mid)) * (np.sin(u) / u if abs(u) > 1e-12 else 1.0)
            N += I * k * hl * tt * ph
    return -1j * G0 * (N @ that), -1j * G0 * (N @ phat)
