"""Reference field computations from the reference topology and the solved
pulse currents (DESIGN.md 4.3).  Imports nothing from mininec."""
import math
import numpy as np
from scipy.integrate import quad_vec

G0 = 29.979221            # eta / (2 pi), the constant the program documents
MIRROR = np.array([1.0, 1.0, -1.0])


def sph(theta_deg, phi_deg):
    t, p = math.radians(theta_deg), math.radians(phi_deg)
    rhat = np.array([math.sin(t) * math.cos(p), math.sin(t) * math.sin(p), math.cos(t)])
    that = np.array([math.cos(t) * math.cos(p), math.cos(t) * math.sin(p), -math.sin(t)])
    phat = np.array([-math.sin(p), math.cos(p), 0.0])
    return rhat, that, phat


def real_half_legs(topo):
    """yield (pulse idx, pulse point, leg start, leg end (half-way point), unit direction of the current,
    half length) for every *real* half segment a pulse spans (the image leg of a ground pulse is not real)"""
    for p in topo.pulses:
        if not (p.kind == 'gnd' and p.gnd_end == 0):
            # first leg e0 -> pt: the half next to the pulse point
            d = p.pt - p.e0
            L = np.linalg.norm(d)
            yield p.idx, p.pt, (p.e0 + p.pt) / 2, p.pt, d / L, L / 2
        if not (p.kind == 'gnd' and p.gnd_end == 1):
            d = p.e1 - p.pt
            L = np.linalg.norm(d)
            yield p.idx, p.pt, p.pt, (p.pt + p.e1) / 2, d / L, L / 2


def far_field(topo, current, k, theta_deg, phi_deg, ground=False, rule='point'):
    """returns (E_theta * r, E_phi * r) (complex, phase referred to the origin) for unit-less currents:
    E r = -j G0 * N . (theta^, phi^),  N = sum I * k * integral over the half legs of t exp(+j k r^.x) ds
    rule 'point': the whole moment of a half leg sits at the pulse point (MININEC); 'exact': straight-line
    integral over the half leg."""
    rhat, that, phat = sph(theta_deg, phi_deg)
    N = np.zeros(3, complex)
    for idx, pt, a, b, t, hl in real_half_legs(topo):
        I = current[idx]
        for img in ((False, True) if ground else (False,)):
            if img:
                tt = t * np.array([-1.0, -1.0, 1.0])
                pp, aa, bb = pt * MIRROR, a * MIRROR, b * MIRROR
            else:
                tt, pp, aa, bb = t, pt, a, b
            if rule == 'point':
                ph = np.exp(1j * k * (rhat @ pp))
            else:
                mid = (aa + bb) / 2
                u = k * (rhat @ (bb - aa)) / 2
                ph = np.exp(1j * k * (rhat @ mid)) * (np.sin(u) / u if abs(u) > 1e-12 else 1.0)
            N += I * k * hl * tt * ph
    return -1j * G0 * (N @ that), -1j * G0 * (N @ phat)


# ---------------------------------------------------------------------------
# near field

_GX, _GW = np.polynomial.legendre.leggauss(64)
_GX = (_GX + 1) / 2
_GW = _GW / 2


def _seg_int(obs, a, b, r, k, thin, adaptive=False):
    """psi = int exp(-jkR)/R dl over a->b and its gradient with respect to the observation point
    (analytic gradient of the kernel under the integral)"""
    L = float(np.linalg.norm(b - a))
    if adaptive:
        def f(t):
            d = obs - (a + (b - a) * t)
            R = math.sqrt(d @ d + (0.0 if thin else r * r))
            e = np.exp(-1j * k * R)
            return np.concatenate([[e / R], -(1 + 1j * k * R) * e / R ** 3 * d])
        v, err = quad_vec(f, 0, 1, epsabs=1e-13, epsrel=1e-11)
        return v[0] * L, v[1:] * L
    pts = a[None, :] + (b - a)[None, :] * _GX[:, None]
    d = obs[None, :] - pts
    R = np.sqrt((d * d).sum(axis=1) + (0.0 if thin else r * r))
    e = np.exp(-1j * k * R)
    psi = (e / R * _GW).sum() * L
    grad = ((-(1 + 1j * k * R) * e / R ** 3 * _GW)[:, None] * d).sum(axis=0) * L
    return psi, grad


def near_field(topo, current, k, obs, ground=False, srm=0.0, adaptive=False, scales=False):
    """E (V/m) and H (A/m) at obs of the pulse currents and their charges; over ideal ground every pulse
    that is not grounded also radiates through its mirror image with opposite current"""
    eta = 376.730313668
    lam = 2 * math.pi / k
    mconst = eta * lam / (8 * math.pi ** 2)          # 1 / (4 pi omega eps0)
    E = np.zeros(3, complex)
    H = np.zeros(3, complex)
    sE = sH = 0.0
    obs = np.asarray(obs, float)
    for p in topo.pulses:
        I = current[p.idx]
        paths = [(p, 1.0)]
        if ground and p.kind != 'gnd':
            paths.append((p.mirrored(), -1.0))
        for q, sg in paths:
            L0, L1 = q.l0, q.l1
            t0 = (q.pt - q.e0) / L0
            t1 = (q.e1 - q.pt) / L1
            th0, th1 = q.r0 <= srm, q.r1 <= srm
            pv, gv = _seg_int(obs, (q.e0 + q.pt) / 2, q.pt, q.r0, k, th0, adaptive)
            pu, gu = _seg_int(obs, q.pt, (q.pt + q.e1) / 2, q.r1, k, th1, adaptive)
            _, g0 = _seg_int(obs, q.e0, q.pt, q.r0, k, th0, adaptive)
            _, g1 = _seg_int(obs, q.pt, q.e1, q.r1, k, th1, adaptive)
            dE = -1j * mconst * I * sg * (k * k * (t0 * pv + t1 * pu) - (g1 / L1 - g0 / L0))
            dH = I * sg * (np.cross(gv, t0) + np.cross(gu, t1)) / (4 * math.pi)
            E += dE
            H += dH
            sE += float(np.linalg.norm(dE))
            sH += float(np.linalg.norm(dH))
    if scales:
        # sums of the magnitudes of the contributions of the individual pulses (and images): the scale against
        # which cancellation between pulses has to be judged
        return E, H, sE, sH
    return E, H


# ---------------------------------------------------------------------------
# far field over real ground: reflection-coefficient approximation as MININEC documents it
# (Fresnel coefficients from the surface impedance of the medium under the specular point, optional radial
# screen on the first medium, media at lower heights, grounded pulses radiate as over perfect ground)

def medium_impedance(eps, sigma, f_mhz):
    t = 2 * math.pi * f_mhz * 8.85e-6
    return 1 / np.sqrt(eps - 1j * sigma / t)


def far_field_real_ground(topo, current, k, f_mhz, theta_deg, phi_deg, media, circular, radials=None):
    """media: list of dict(eps, sigma, height, coord (absent for the last)); returns (E_theta r, E_phi r)"""
    rhat, that, phat = sph(theta_deg, phi_deg)
    th, ph = math.radians(theta_deg), math.radians(phi_deg)
    ct, st_ = math.cos(th), math.sin(th)
    coords = [m.get('coord', 1e6) for m in media]
    coords[-1] = 1e6
    N = np.zeros(3, complex)
    for p in topo.pulses:
        I = current[p.idx]
        legs = []
        if not (p.kind == 'gnd' and p.gnd_end == 0):
            d = p.pt - p.e0
            legs.append((d / np.linalg.norm(d), np.linalg.norm(d) / 2))
        if not (p.kind == 'gnd' and p.gnd_end == 1):
            d = p.e1 - p.pt
            legs.append((d / np.linalg.norm(d), np.linalg.norm(d) / 2))
        x, y, z = p.pt
        direct = np.exp(1j * k * (rhat @ p.pt))
        for t, hl in legs:
            b = I * k * hl
            if p.kind == 'gnd':
                # the lowest half segment of a grounded wire: perfect image at the base
                N += b * direct * np.array([0.0, 0.0, 2 * t[2]])
                continue
            N += b * direct * t
            # specular point and the medium below it
            t4 = z * st_ / ct if ct != 0 else 1e5
            cx, cy = t4 * math.cos(ph) + x, t4 * math.sin(ph) + y
            b9 = math.hypot(cx, cy) if circular else cx
            j2 = 0
            while j2 < len(coords) - 1 and b9 > coords[j2]:
                j2 += 1
            zs = medium_impedance(media[j2]['eps'], media[j2]['sigma'], f_mhz)
            if radials and j2 == 0:
                prod = radials['n'] * radials['r']
                r_ = b9 + prod
                z8 = k * r_ * math.log(r_ / prod) / radials['n']
                zs = zs * (1j * z8) / (zs + 1j * z8)
            w = np.sqrt(1 - zs ** 2 * st_ ** 2)
            rv = (ct - w * zs) / (ct + w * zs)
            rh = (w - ct * zs) / (w + ct * zs)
            h = media[j2].get('height', 0.0)
            img_pt = np.array([x, y, 2 * h - z])
            phs = np.exp(1j * k * (rhat @ img_pt))
            timg = np.array([-t[0], -t[1], t[2]])
            N += b * phs * (rv * timg - (rh - rv) * (t @ phat) * phat)
    return -1j * G0 * (N @ that), -1j * G0 * (N @ phat)
