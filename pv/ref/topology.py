"""Reference pulse topology, derived from the documented MININEC rules:

* objects are processed in tag order; an end closer than tol = 1e-3 * shortest
  segment to an earlier end joins that end's junction (first match, NEC rule);
* over ground an end with |z| < tol is a grounded end;
* pulses of an object, in order: [ground pulse | junction pulse at end 1 (only
  if an earlier end is in that junction)], interior joints, [ground pulse |
  junction pulse at end 2 (if an earlier end - possibly the object's own end 1 -
  is in the junction)];
* a junction pulse joins the end segment of the *first* end of the junction with
  the end segment of the current object; positive current runs in the direction
  of the current (later) object;
* a ground pulse's second leg is the mirror image of the real one.

Imports nothing from mininec.  Input: list of objects in tag order, each a dict
with 'segs' = array (n+1, 3) of segment end points and 'r' = radius.
"""
import numpy as np

MIRROR = np.array([1.0, 1.0, -1.0])


class RefPulse:
    """path e0 -> pt -> e1, radii (r0, r1); legs = ((obj, seg, sense), (obj, seg, sense))
    kind in {'int', 'junc', 'gnd'}; owner = object index whose block lists it"""
    __slots__ = ('e0', 'pt', 'e1', 'r0', 'r1', 'legs', 'kind', 'owner', 'gnd_end', 'idx')

    def __init__(self, e0, pt, e1, r0, r1, legs, kind, owner, gnd_end=None):
        self.e0 = np.asarray(e0, float)
        self.pt = np.asarray(pt, float)
        self.e1 = np.asarray(e1, float)
        self.r0, self.r1 = r0, r1
        self.legs = legs
        self.kind = kind
        self.owner = owner
        self.gnd_end = gnd_end
        self.idx = None

    @property
    def l0(self):
        return float(np.linalg.norm(self.pt - self.e0))

    @property
    def l1(self):
        return float(np.linalg.norm(self.e1 - self.pt))

    def mirrored(self):
        return RefPulse(self.e0 * MIRROR, self.pt * MIRROR, self.e1 * MIRROR,
                        self.r0, self.r1, self.legs, self.kind, self.owner, self.gnd_end)


class Topology:
    pass


def seg_lengths(segs):
    return np.linalg.norm(np.diff(segs, axis=0), axis=1)


def build(objs, ground, tol_factor=1e-3):
    """objs: list of dict(segs=(n+1,3) array, r=float).  Returns Topology with
    .pulses (global order), .per_obj (list of lists), .junctions (list of member
    lists [(obj,end)]), .junc_of {(obj,end): j}, .grounded {(obj,end)}, .tol,
    .min_seg, .expected_count"""
    t = Topology()
    min_seg = min(float(seg_lengths(o['segs']).min()) for o in objs)
    tol = tol_factor * min_seg
    t.min_seg, t.tol = min_seg, tol
    grounded = set()
    keys = []        # [(point, junction index)] in insertion order (reps and aliases)
    junctions = []   # list of lists of (obj, end)
    junc_of = {}
    for w, o in enumerate(objs):
        ends = (o['segs'][0], o['segs'][-1])
        for e in (0, 1):
            p = ends[e]
            if ground and abs(p[2]) < tol:
                grounded.add((w, e))
                continue
            hit = None
            for q, j in keys:
                if (q == p).all():
                    hit = j
                    break
            if hit is None:
                for q, j in keys:
                    if np.linalg.norm(p - q) <= tol:
                        hit = j
                        break
                if hit is not None:
                    keys.append((p.copy(), hit))
            if hit is None:
                junctions.append([(w, e)])
                keys.append((p.copy(), len(junctions) - 1))
                hit = len(junctions) - 1
            else:
                junctions[hit].append((w, e))
            junc_of[(w, e)] = hit
    t.grounded, t.junctions, t.junc_of = grounded, junctions, junc_of

    def endseg(w, e):
        """(segment index, far point, near point) of the end segment of object w at end e"""
        s = objs[w]['segs']
        n = len(s) - 1
        if e == 0:
            return 0, s[1], s[0]
        return n - 1, s[n - 1], s[n]

    per_obj = []
    pulses = []
    for w, o in enumerate(objs):
        s = o['segs']
        n = len(s) - 1
        r = o['r']
        mine = []
        # end 1
        if (w, 0) in grounded:
            mine.append(RefPulse(s[1] * MIRROR, s[0], s[1], r, r,
                                 ((w, 0, +1), (w, 0, +1)), 'gnd', w, 0))
        else:
            first = junctions[junc_of[(w, 0)]][0]
            if first != (w, 0):
                wf, ef = first
                si, far, near = endseg(wf, ef)
                # path: far point of the first end's segment -> junction -> own first segment
                # direction on the other object: along it if its end 2 is here, against it if end 1
                sense = +1 if ef == 1 else -1
                d = (near - far)
                mine.append(RefPulse(s[0] - d, s[0], s[1], objs[wf]['r'], r,
                                     ((wf, si, sense), (w, 0, +1)), 'junc', w))
        for i in range(1, n):
            mine.append(RefPulse(s[i - 1], s[i], s[i + 1], r, r,
                                 ((w, i - 1, +1), (w, i, +1)), 'int', w))
        # end 2
        if (w, 1) in grounded:
            mine.append(RefPulse(s[n - 1], s[n], s[n - 1] * MIRROR + np.array([0, 0, 2 * s[n][2]]), r, r,
                                 ((w, n - 1, +1), (w, n - 1, +1)), 'gnd', w, 1))
        else:
            first = junctions[junc_of[(w, 1)]][0]
            if first != (w, 1):
                wf, ef = first
                si, far, near = endseg(wf, ef)
                sense = +1 if ef == 0 else -1
                d = (far - near)
                mine.append(RefPulse(s[n - 1], s[n], s[n] + d, r, objs[wf]['r'],
                                     ((w, n - 1, +1), (wf, si, sense)), 'junc', w))
        per_obj.append(mine)
        for p in mine:
            p.idx = len(pulses)
            pulses.append(p)
    t.per_obj, t.pulses = per_obj, pulses
    t.expected_count = (sum(len(o['segs']) - 2 for o in objs) + len(grounded)
                        + sum(len(j) - 1 for j in junctions))
    t.objs = objs
    return t


def end_current(t, current, w, e):
    """Total current through end e of object w, counted along the object's own
    direction (end 1 -> end 2), from the pulse currents."""
    n = len(t.objs[w]['segs']) - 1
    seg = 0 if e == 0 else n - 1
    endpt = t.objs[w]['segs'][0 if e == 0 else n]
    tot = 0j
    cnt = 0
    for p in t.pulses:
        if p.kind == 'gnd':
            continue
        if np.linalg.norm(p.pt - endpt) > 2 * t.tol + 1e-12:
            continue
        for (ow, os, sense) in p.legs:
            if ow == w and os == seg:
                # for single-segment objects both ends use the same segment:
                # the point test above decides
                tot += sense * current[p.idx]
                cnt += 1
                break
    return tot, cnt


def wire_end_sets(t):
    """For every junction: list of member ends; free ends are junctions of size 1"""
    return t.junctions
