"""Hypothesis strategies producing JSON-serialisable antenna cases that obey the
documented thin-wire modelling rules *by construction* (DESIGN.md section 3)."""
import math
import numpy as np
from hypothesis import strategies as st

from .ref import geometry as rgeo
from .ref import topology as rtop

C_MHZ_M = 299.8

_ax = [(1, 0, 0), (-1, 0, 0), (0, 1, 0), (0, -1, 0), (0, 0, 1), (0, 0, -1)]
_dg = [(a, b, c) for a in (1, -1) for b in (1, -1) for c in (1, -1)]
# face diagonals (wires in the coordinate planes, e.g. a sloping wire with dx == 0 exactly) and steep directions
# (18 and 25 degrees off the vertical); appended so that the indices of the axes and space diagonals stay
_fd = [(0, a, b) for a in (1, -1) for b in (1, -1)] + [(a, 0, b) for a in (1, -1) for b in (1, -1)] + \
      [(a, b, 0) for a in (1, -1) for b in (1, -1)]
_st = [(a, 0, 3 * c) for a in (1, -1) for c in (1, -1)] + [(0, a, 3 * c) for a in (1, -1) for c in (1, -1)] + \
      [(a, b, 3 * c) for a in (1, -1) for b in (1, -1) for c in (1, -1)]
DIRS = [np.array(v, float) / np.linalg.norm(v) for v in _ax + _dg + _fd + _st]
UP = [i for i, d in enumerate(DIRS) if d[2] > 0.5]          # +z axis and the four upper diagonals
DOWN = [i for i, d in enumerate(DIRS) if d[2] < -0.5]
HORIZ_OR_UP = [i for i, d in enumerate(DIRS) if d[2] >= -1e-9]


def logf(lo, hi):
    return st.floats(math.log(lo), math.log(hi), allow_nan=False).map(math.exp)


def r6(x):
    """round to 9 significant digits so that cases print compactly but stay generic"""
    return float('%.9g' % x)


@st.composite
def frequency(draw):
    # mostly 0.1 MHz .. 1 GHz; a sixth of the cases from 10 kHz to 30 GHz (structures of kilometres and of
    # millimetres: everything absolute in the program shows there)
    if draw(st.integers(0, 5)) == 0:
        return r6(draw(st.one_of(logf(0.01, 0.1), logf(1000.0, 30000.0))))
    return r6(draw(logf(0.1, 1000.0)))


def _rot(draw, zonly):
    u = draw(st.integers(0, 9))
    if u == 0:
        return np.eye(3)
    if u == 1 or (u == 2 and zonly):
        # an exact quarter, half or three-quarter turn about z (entries exactly 0 and +-1: wires stay exactly in
        # their coordinate planes)
        k = draw(st.integers(1, 3))
        c, s_ = [(0.0, 1.0), (-1.0, 0.0), (0.0, -1.0)][k - 1]
        return np.array([[c, -s_, 0.0], [s_, c, 0.0], [0.0, 0.0, 1.0]])
    az = draw(st.floats(0, 360))
    if zonly:
        return rgeo.rot_matrix((0, 0, az))
    return rgeo.rot_matrix((draw(st.floats(0, 360)), draw(st.floats(0, 360)), az))


@st.composite
def structure(draw, ground=False, max_wires=4, max_seg=10, min_seg=1, seg_lo=1 / 200., seg_hi=1 / 10.,
              thick=None, allow_loop=True, allow_two=True, allow_drop=True, same_seg=False, star=0):
    """Returns (wires, info) in wavelengths.  wires: list of dict(n,p1,p2,r).  ground: bool.
    thick: None = any radius, True = radius > 1e-4 lambda, False = thin"""
    s0 = draw(logf(seg_lo * 1.0, seg_hi / 1.0))
    kind = draw(st.sampled_from(['tree'] * 6 + (['loop'] * 2 if allow_loop else []) + (['two', 'parallel'] if allow_two else [])
                                + ['star'] * star))
    info = {'template': kind}

    def seglen():
        if same_seg:
            return s0
        # adjacent segments may differ by at most a factor 2 (README, 'The Other Edge of The Sword')
        f = draw(st.sampled_from([1.0, 1.0, 0.75, 0.8, 1.25, 1.5]))
        return min(max(s0 * f, seg_lo), seg_hi)

    def radius(sl):
        hi = sl / 8.0
        if thick is True:
            lo = 1.0001e-4
            if hi <= lo:
                return hi
            return draw(logf(lo, hi))
        if thick is False:
            return draw(logf(1e-7, min(hi, 0.99e-4)))
        return draw(logf(1e-6, hi))

    wires = []

    star_mode = kind == 'star'
    if star_mode:
        kind = 'tree'

    def tree(origin, nw, grounded_root):
        stub = {}
        nodes = [np.array(origin, float)]
        used = {0: set()}
        out = []
        for i in range(nw):
            if i == 0 or star_mode:
                a = 0
            else:
                # bias towards building junctions of degree 3 and 4
                a = draw(st.integers(0, len(nodes) - 1))
            if grounded_root and a == 0:
                if used[0]:
                    # only one wire end per ground point
                    a = draw(st.integers(1, len(nodes) - 1))
            cand = [k for k in range(len(DIRS)) if k not in used[a]]
            if grounded_root and a == 0:
                cand = [k for k in UP]
            if ground and grounded_root:
                # keep away from ground: no downward directions unless a deliberate drop
                cand = [k for k in cand if k in HORIZ_OR_UP] or cand
            k = draw(st.sampled_from(cand))
            # (a grounded root of a single segment - a short feed stub - in a quarter of the grounded cases)
            n = draw(st.integers(max(min_seg, 2) if (i == 0 and not (grounded_root and draw(st.integers(0, 3)) == 0)) else min_seg, max_seg))
            sl = seglen()
            if i == 0 and grounded_root and n == 1 and draw(st.integers(0, 3)) > 0:
                # a vertical stub; whatever is attached above it keeps one segment length clear of the ground
                k = 4
                stub['h'] = sl
            elif stub:
                sl = min(sl, stub['h'])
            d = DIRS[k]
            end = nodes[a] + d * n * sl
            nodes.append(end)
            used[a].add(k)
            opp = int(np.argmin([np.linalg.norm(DIRS[j] + d) for j in range(len(DIRS))]))
            used[len(nodes) - 1] = {opp}
            out.append(dict(n=n, p1=nodes[a].copy(), p2=end.copy(), r=radius(sl), _sl=sl))
        if ground and grounded_root and allow_drop and len(nodes) > 1 and draw(st.integers(0, 3)) == 0:
            # a wire from an elevated node down to the ground plane
            a = draw(st.integers(1, len(nodes) - 1))
            cand = [k for k in DOWN if k not in used[a]]
            if cand and nodes[a][2] > 0:
                k = draw(st.sampled_from(cand))
                d = DIRS[k]
                L = nodes[a][2] / -d[2]
                sl = seglen()
                n = max(1, int(round(L / sl)))
                if n <= max(max_seg, 14) and seg_lo <= L / n <= seg_hi:
                    end = nodes[a] + d * L
                    end[2] = 0.0
                    out.append(dict(n=n, p1=nodes[a].copy(), p2=end, r=radius(L / n), _sl=L / n))
                    info['drop'] = True
        return out

    if kind == 'tree':
        nw = draw(st.integers(2 if star_mode else 1, max(2, max_wires)))
        groot = ground and draw(st.booleans()) and not star_mode
        info['grounded_root'] = groot
        wires = tree((0, 0, 0), nw, groot)
        lift = not groot
    elif kind == 'two':
        n1 = draw(st.integers(1, max(1, max_wires // 2)))
        n2 = draw(st.integers(1, max(1, max_wires - n1)))
        groot = ground and draw(st.booleans())
        info['grounded_root'] = groot
        w1 = tree((0, 0, 0), n1, groot)
        ext = max(max(np.linalg.norm(w['p1']), np.linalg.norm(w['p2'])) for w in w1)
        off = draw(st.sampled_from([(1, 0, 0), (0, 1, 0), (1, 1, 0), (-1, 1, 0)]))
        off = np.array(off, float) / np.linalg.norm(off)
        dist = ext * 2 + draw(st.floats(0.05, 0.6)) + 4 * s0
        g2 = ground and draw(st.booleans())
        w2 = tree(off * dist * 2, n2, g2)
        if ground and (groot != g2):
            # lift the ungrounded component
            z = draw(st.floats(1.0, 4.0)) * 2 * s0
            tgt = w2 if groot else w1
            zmin = min(min(w['p1'][2], w['p2'][2]) for w in tgt)
            for w in tgt:
                w['p1'][2] += z - zmin
                w['p2'][2] += z - zmin
            lift = False
        else:
            lift = not groot
        wires = w1 + w2
    elif kind == 'parallel':
        # an array of 2..4 parallel straight elements (Yagi, phased verticals): all wires have exactly the same
        # direction; over ground vertical monopoles on the ground or elevated elements
        ne = draw(st.integers(2, max(2, min(4, max_wires))))
        vertical = draw(st.booleans())
        groot = ground and vertical and draw(st.booleans())
        info['grounded_root'] = groot
        d = np.array([0.0, 0.0, 1.0]) if vertical else np.array([0.0, 1.0, 0.0])
        u = np.array([1.0, 0.0, 0.0])
        x = 0.0
        for i in range(ne):
            n = draw(st.integers(max(min_seg, 2), max_seg))
            sl = seglen()
            L = n * sl
            if groot:
                a = np.array([x, 0.0, 0.0])
            else:
                a = u * x - d * L / 2 * (1 if draw(st.booleans()) else draw(st.floats(0.6, 1.4)))
            wires.append(dict(n=n, p1=a.copy(), p2=a + d * L, r=radius(sl), _sl=sl))
            x += max(draw(st.floats(0.05, 0.5)), 2.5 * max(sl, s0))
        lift = not groot
    else:
        k = draw(st.integers(3, 6))
        n = draw(st.integers(max(1, min_seg), max(1, min(max_seg, 24 // k))))
        sl = seglen()
        side = n * sl
        R = side / (2 * math.sin(math.pi / k))
        plane = draw(st.sampled_from(['xy', 'xz']))
        pts = []
        for i in range(k):
            a = 2 * math.pi * i / k
            if plane == 'xy':
                pts.append(np.array([R * math.cos(a), R * math.sin(a), 0.0]))
            else:
                pts.append(np.array([R * math.cos(a), 0.0, R * math.sin(a)]))
        r = radius(sl)
        for i in range(k):
            wires.append(dict(n=n, p1=pts[i].copy(), p2=pts[(i + 1) % k].copy(), r=r, _sl=sl))
        info['grounded_root'] = False
        lift = True

    # rigid motion
    R = _rot(draw, zonly=ground and not lift)
    if ground and lift:
        R = _rot(draw, zonly=draw(st.booleans()))
    for w in wires:
        w['p1'] = R @ w['p1']
        w['p2'] = R @ w['p2']
    if ground:
        if lift:
            zmin = min(min(w['p1'][2], w['p2'][2]) for w in wires)
            maxsl = max(w['_sl'] for w in wires)
            h = maxsl * draw(st.floats(1.05, 6.0))
            for w in wires:
                w['p1'][2] += h - zmin
                w['p2'][2] += h - zmin
        else:
            # keep grounded ends exactly on the plane
            for w in wires:
                for e in ('p1', 'p2'):
                    if abs(w[e][2]) < 1e-12:
                        w[e][2] = 0.0
    # the directions so far are axes and diagonals: in a quarter of the cases a small shear (0.3..3 degrees, heights
    # unchanged, so grounded ends stay grounded) takes vertical wires slightly off the vertical and right angles
    # slightly off 90 degrees
    if draw(st.integers(0, 3)) == 0:
        eps = math.tan(math.radians(draw(st.floats(0.3, 3.0))))
        phi = draw(st.floats(0, 2 * math.pi))
        for w in wires:
            for e in ('p1', 'p2'):
                z = w[e][2]
                w[e][0] += eps * math.cos(phi) * z
                w[e][1] += eps * math.sin(phi) * z
        info['sheared'] = True
    # reversal and order
    for w in wires:
        if draw(st.booleans()):
            w['p1'], w['p2'] = w['p2'], w['p1']
            w['_rev'] = True
    perm = draw(st.permutations(list(range(len(wires)))))
    wires = [wires[i] for i in perm]
    return wires, info


def to_objs(wires, lam):
    out = []
    for w in wires:
        out.append(dict(type='wire', n=int(w['n']),
                        p1=[r6(x * lam) for x in w['p1']], p2=[r6(x * lam) for x in w['p2']],
                        r=r6(w['r'] * lam), tag=None, taper=0, tmin=None, tmax=None, _rev=bool(w.get('_rev'))))
    # grounded ends must stay exactly 0 after rounding
    return out


@st.composite
def tags(draw, objs, styles=('auto', 'consecutive', 'sparse', 'permuted', 'mixed')):
    style = draw(st.sampled_from(styles))
    n = len(objs)
    if style == 'auto':
        t = [None] * n
    elif style == 'consecutive':
        t = list(range(1, n + 1))
    else:
        vals = draw(st.lists(st.integers(1, 40), min_size=n, max_size=n, unique=True))
        if style == 'sparse':
            t = sorted(vals)
        elif style == 'permuted':
            t = vals
        else:
            t = [v if draw(st.booleans()) else None for v in vals]
    for o, tg in zip(objs, t):
        o['tag'] = tg
    return style


@st.composite
def taper_some(draw, objs, lam, prob=0.25):
    any_t = False
    for o in objs:
        if o['type'] != 'wire' or o['n'] < 2:
            continue
        if draw(st.floats(0, 1)) < prob:
            L = float(np.linalg.norm(np.array(o['p2']) - np.array(o['p1'])))
            tmin = max(8 * o['r'], lam / 200.0)
            if L / o['n'] < tmin * 1.05:
                continue
            o['taper'] = draw(st.integers(1, 3))
            o['tmin'] = r6(tmin)
            tmax = min(lam / 10.0, max(L / o['n'] * draw(st.floats(1.1, 3.0)), tmin * 1.5))
            if not draw(st.integers(0, 3)):
                tmax = lam / 10.0
            if tmax >= L / o['n'] * 1.05:
                o['tmax'] = r6(tmax * 0.999999)
            else:
                # no admissible maximum <= lambda/10: leave the wire untapered (an unlimited taper would
                # produce segments far longer than lambda/10)
                o['taper'] = 0
                o['tmin'] = None
                continue
            any_t = True
    return any_t


def stand_in_topology(case):
    """Topology of the *description* (tapered wires get an equal-division stand in:
    pulse counts, ownership and junctions do not depend on the division)."""
    items = rgeo.transformed(case)
    objs = []
    for it in items:
        o = it['obj']
        if o['type'] == 'wire':
            segs = rgeo.equal_segments(it['pts'][0], it['pts'][1], o['n'])
        else:
            segs = it['pts']
        objs.append(dict(segs=segs, r=it['r'], tag=it['tag'], obj=o))
    g = case.get('env') is not None and case['env']['kind'] != 'free'
    return rtop.build(objs, g), objs


@st.composite
def voltage(draw, simple=False):
    if simple or draw(st.integers(0, 4)) == 0:
        return [1.0, 0.0]
    mag = draw(logf(1e-3, 1e3))
    ph = draw(st.floats(0, 2 * math.pi))
    return [r6(mag * math.cos(ph)), r6(mag * math.sin(ph))]


@st.composite
def sources(draw, case, nmin=1, nmax=3, form='any', kinds=None):
    """draw nmin..nmax sources on distinct pulses; returns list and sets case['sources']"""
    topo, objs = stand_in_topology(case)
    npl = len(topo.pulses)
    if npl == 0:
        case['sources'] = []
        return []
    k = draw(st.integers(nmin, max(nmin, min(nmax, npl))))
    k = min(k, npl)
    # prefer a mix of interior / junction / grounded pulses
    special = [p.idx for p in topo.pulses if p.kind != 'int']
    idxs = []
    for i in range(k):
        if special and draw(st.integers(0, 2)) == 0:
            c = [j for j in special if j not in idxs]
        else:
            c = [j for j in range(npl) if j not in idxs]
        if not c:
            c = [j for j in range(npl) if j not in idxs]
        idxs.append(draw(st.sampled_from(c)))
    srcs = []
    for j in idxs:
        p = topo.pulses[j]
        f = form if form != 'any' else draw(st.sampled_from(['abs', 'obj']))
        if f == 'obj':
            kk = topo.per_obj[p.owner].index(p)
            pulse = {'k': kk, 'tag': objs[p.owner]['tag']}
        else:
            pulse = j
        srcs.append({'pulse': pulse, 'v': draw(voltage()), '_idx': j, '_kind': p.kind})
    case['sources'] = srcs
    return srcs


@st.composite
def environment(draw, kinds=('free', 'ideal', 'real')):
    k = draw(st.sampled_from(kinds))
    if k in ('free', 'ideal'):
        return {'kind': k}
    nm = draw(st.integers(1, 3))
    media = []
    c = 0.0
    for i in range(nm):
        m = {'eps': r6(draw(st.floats(1.0, 80.0))), 'sigma': r6(draw(logf(1e-4, 1e3))),
             'height': 0.0 if i == 0 else -r6(draw(st.floats(0.0, 5.0)))}
        if i < nm - 1:
            c += draw(st.floats(0.5, 50.0))
            m['coord'] = r6(c)
        media.append(m)
    env = {'kind': 'real', 'media': media, 'boundary': draw(st.sampled_from(['linear', 'circular']))}
    if nm > 1 and draw(st.integers(0, 2)) == 0:
        env['boundary'] = 'circular'
        env['radials'] = {'n': draw(st.integers(2, 120)), 'r': r6(draw(logf(1e-4, 1e-2)))}
    return env


@st.composite
def antenna(draw, env_kinds=('free', 'ideal'), max_wires=4, max_seg=10, min_seg=1, tapers=True, tag_styles=None,
            nsrc=(1, 3), src_form='any', thick=None, seg_lo=1 / 200., seg_hi=1 / 10., allow_loop=True,
            allow_two=True, same_seg=False, taper_prob=0.2, star=0):
    f = draw(frequency())
    lam = C_MHZ_M / f
    env = draw(environment(env_kinds))
    ground = env['kind'] != 'free'
    wires, info = draw(structure(ground=ground, max_wires=max_wires, max_seg=max_seg, min_seg=min_seg, thick=thick,
                                 seg_lo=seg_lo, seg_hi=seg_hi, allow_loop=allow_loop, allow_two=allow_two,
                                 same_seg=same_seg, star=star))
    objs = to_objs(wires, lam)
    case = {'f': f, 'env': env, 'objs': objs, 'xforms': [], 'scales': [], 'sources': [], 'loads': []}
    style = draw(tags(objs, tag_styles or ('auto', 'consecutive', 'sparse', 'permuted', 'mixed')))
    tp = draw(taper_some(objs, lam, taper_prob)) if tapers else False
    if nsrc[1] > 0:
        draw(sources(case, nsrc[0], nsrc[1], src_form))
    case['_info'] = dict(info, tag_style=style, tapered=tp)
    return case


# ---------------------------------------------------------------------------
# loads

@st.composite
def lumped_load(draw, kinds=('z', 'rlc', 'trap', 'laplace'), passive=True):
    k = draw(st.sampled_from(kinds))
    if k == 'z':
        re = draw(st.one_of(st.just(0.0), logf(1e-3, 1e6)))
        im = draw(st.one_of(st.just(0.0), logf(1e-3, 1e6))) * draw(st.sampled_from([1, -1]))
        if not passive and draw(st.integers(0, 5)) == 0:
            re = -re
        return {'kind': 'z', 'z': [r6(re), r6(im)]}
    if k == 'rlc':
        which = draw(st.sampled_from(['RLC', 'RLC', 'RL', 'RC', 'LC', 'R', 'L', 'C']))
        return {'kind': 'rlc',
                'R': r6(draw(logf(1e-3, 1e6))) if 'R' in which else None,
                'L': r6(draw(logf(1e-9, 1e-3))) if 'L' in which else None,
                'C': r6(draw(logf(1e-15, 1e-6))) if 'C' in which else None}
    if k == 'trap':
        return {'kind': 'trap', 'R': r6(draw(logf(1e-3, 1e3))), 'L': r6(draw(logf(1e-9, 1e-3))),
                'C': r6(draw(logf(1e-15, 1e-6)))}
    order = draw(st.integers(0, 3))
    # a passive, well defined rational function: build from an R-L-C ladder would be ideal; here
    # positive coefficients keep numerator and denominator away from zero on the j-omega axis
    b = [r6(draw(logf(1e-3, 1e3)) * (1e-7 ** i)) for i in range(order + 1)]
    a = [r6(draw(logf(1e-3, 1e3)) * (1e-7 ** i)) for i in range(draw(st.integers(1, order + 1)))]
    return {'kind': 'laplace', 'a': a, 'b': b}


# ---------------------------------------------------------------------------
# antennas containing an arc or a helix

@st.composite
def curve_antenna(draw, env_kinds=('free', 'ideal'), nsrc=(1, 2), src_form='any', tag_styles=None, max_seg=10,
                  attach=True):
    f = draw(frequency())
    lam = C_MHZ_M / f
    env = draw(environment(env_kinds))
    ground = env['kind'] != 'free'
    sl = draw(logf(1 / 150., 1 / 12.))          # segment length in wavelengths
    kind = draw(st.sampled_from(['arc', 'arc', 'helix']))
    objs = []
    xforms = []
    info = {'template': kind}
    r = draw(logf(1e-6, sl / 8.0))
    wires_after = []
    if kind == 'arc':
        n = draw(st.integers(3, max_seg))
        shape = draw(st.sampled_from(['open', 'open', 'closed', 'half-on-ground'] if ground else ['open', 'open', 'closed']))
        if shape == 'closed':
            span = 360.0
            n = max(n, 5)
        elif shape == 'half-on-ground':
            span = 180.0
            n = max(n, 4)
        else:
            span = draw(st.floats(40.0, 300.0))
        R = sl / (2 * math.sin(math.radians(span / n) / 2))
        a1 = 0.0 if shape == 'half-on-ground' else r6(draw(st.floats(-180, 180)))
        arc = dict(type='arc', n=n, R=r6(R * lam), a1=a1, a2=r6(a1 + span) if shape != 'closed' else a1 + 360.0,
                   r=r6(r * lam), tag=None)
        objs.append(arc)
        info['arc'] = shape
        pts = rgeo.arc_points(arc)
        if attach and shape == 'open' and span >= 90.0 and draw(st.integers(0, 3)) == 0:
            # the chord closes the arc: a loop of two objects, each joining the other with both ends
            L_ = float(np.linalg.norm(pts[-1] - pts[0]))
            nn = max(1, int(round(L_ / (sl * lam))))
            w = dict(type='wire', n=nn, p1=[float(x) for x in pts[0]], p2=[float(x) for x in pts[-1]], r=r6(r * lam),
                     tag=None, taper=0, tmin=None, tmax=None)
            if draw(st.booleans()):
                w['p1'], w['p2'] = w['p2'], w['p1']
            wires_after.append(w)
            info['arc'] = 'open+chord'
        elif attach and shape == 'open':
            for e in draw(st.sampled_from([[], [0], [-1], [0, -1]])):
                nn = draw(st.integers(1, 5))
                s2 = sl * draw(st.sampled_from([1.0, 0.7, 1.4]))
                d = np.array([0.0, draw(st.sampled_from([1.0, -1.0])), 0.0])
                p = pts[e]
                q = p + d * nn * s2 * lam
                w = dict(type='wire', n=nn, p1=[r6(x) for x in p], p2=[r6(x) for x in q], r=r6(r * lam * draw(st.sampled_from([1.0, 0.5, 2.0]))),
                         tag=None, taper=0, tmin=None, tmax=None)
                w['p1'] = [float(x) for x in p]      # exact junction with the arc end
                if draw(st.booleans()):
                    w['p1'], w['p2'] = w['p2'], w['p1']
                wires_after.append(w)
        elif attach and shape == 'closed' and draw(st.booleans()):
            # a wire on the point where the full circle closes (three ends meet there; with permuted tags the wire
            # may come before the loop)
            nn = draw(st.integers(1, 4))
            d = np.array([0.0, draw(st.sampled_from([1.0, -1.0])), 0.0])
            p = pts[0]
            q = p + d * nn * sl * lam
            w = dict(type='wire', n=nn, p1=[float(x) for x in p], p2=[r6(x) for x in q], r=r6(r * lam), tag=None, taper=0,
                     tmin=None, tmax=None)
            if draw(st.booleans()):
                w['p1'], w['p2'] = w['p2'], w['p1']
            wires_after.append(w)
            info['arc'] = 'closed+wire'
        zmin = float(pts[:, 2].min())
        lift_needed = shape != 'half-on-ground'
    else:
        k = draw(st.integers(5, 10))                 # segments per turn
        turns = draw(st.floats(0.5, 3.0))
        n = max(3, int(round(turns * k)))
        T = draw(st.floats(1.5, 6.0)) * sl           # turn length
        circ = math.sqrt(max((k * sl) ** 2 - T ** 2, (0.5 * k * sl) ** 2))
        rho = circ / (2 * math.pi)
        ell = draw(st.sampled_from([1.0, 1.0, 0.8, 1.25]))
        h = dict(type='helix', n=n, len=r6(n / k * T * lam * draw(st.sampled_from([1, 1, -1]))),
                 turn=r6(T * lam * draw(st.sampled_from([1, 1, -1]))), r=r6(min(r, T / 8) * lam),
                 rx1=r6(rho * lam), ry1=r6(rho * ell * lam), rx2=None, ry2=None, tag=None)
        if draw(st.integers(0, 2)) == 0:
            g = draw(st.sampled_from([0.6, 0.8, 1.25, 1.5]))
            h['rx2'] = r6(rho * g * lam)
            h['ry2'] = r6(rho * ell * g * draw(st.sampled_from([1.0, 0.9, 1.1])) * lam)
        objs.append(h)
        pts = rgeo.helix_points(h)
        grounded_helix = ground and draw(st.booleans())
        info['helix_grounded'] = grounded_helix
        if attach and not grounded_helix and draw(st.booleans()):
            nn = draw(st.integers(1, 4))
            p = pts[0]
            d = p.copy()
            d[2] = 0
            d = d / np.linalg.norm(d)
            q = p + d * nn * sl * lam
            w = dict(type='wire', n=nn, p1=[float(x) for x in p], p2=[r6(x) for x in q], r=h['r'], tag=None, taper=0,
                     tmin=None, tmax=None)
            if draw(st.booleans()):
                w['p1'], w['p2'] = w['p2'], w['p1']
            wires_after.append(w)
        zmin = 0.0
        lift_needed = not grounded_helix
    if info.get('arc') == 'closed+wire' and draw(st.booleans()):
        objs = wires_after + objs             # the wire is listed (and, with automatic tags, numbered) before the loop
    else:
        objs += wires_after
    case = {'f': f, 'env': env, 'objs': objs, 'xforms': xforms, 'scales': [], 'sources': [], 'loads': []}
    style = draw(tags(objs, tag_styles or ('auto', 'consecutive', 'sparse', 'permuted', 'mixed')))
    if ground and lift_needed:
        hgt = (sl * draw(st.floats(1.1, 5.0))) * lam - zmin
        xforms.append({'kind': 'translate', 'key': 1.0, 'v': [0.0, 0.0, r6(hgt)], 'tag': None})
    elif not ground and draw(st.booleans()):
        xforms.append({'kind': 'rotate', 'key': 1.0, 'v': [r6(draw(st.floats(0, 360))), r6(draw(st.floats(0, 360))), 0.0], 'tag': None})
        xforms.append({'kind': 'translate', 'key': 2.0, 'v': [r6(draw(st.floats(-3, 3)) * lam) for _ in range(3)], 'tag': None})
    if nsrc[1] > 0:
        draw(sources(case, nsrc[0], nsrc[1], src_form))
    case['_info'] = dict(info, tag_style=style, tapered=False)
    return case


# ---------------------------------------------------------------------------
# wire ends that coincide only within the program's matching tolerance

def minseg_estimate(case):
    """lower bound of the shortest segment of the (transformed) antenna; the program matches wire ends that are
    closer than 1e-3 of its shortest segment"""
    items = rgeo.transformed(case)
    minseg = 1e99
    for it in items:
        o = it['obj']
        if o['type'] == 'wire':
            L = np.linalg.norm(it['pts'][1] - it['pts'][0])
            if o.get('taper'):
                minseg = min(minseg, max(2.5 * it['r'], L / (2 ** o['n'] - 1)))
            else:
                minseg = min(minseg, L / o['n'])
        else:
            minseg = min(minseg, np.linalg.norm(np.diff(it['pts'], axis=0), axis=1).min())
    return float(minseg)


@st.composite
def jitter_ends(draw, case, prob=0.5, lo=0.05e-3, hi=0.4e-3, group_prob=0.5):
    """move ends of straight wires by lo..hi of the shortest segment (well inside the matching tolerance of 1e-3):
    junctions stay junctions, but the coordinates of the joined ends are no longer identical.  Ends on the ground
    plane keep z = 0.  Returns the number of moved ends."""
    ms = minseg_estimate(case)
    if any(s.get('f', 1.0) != 1.0 for s in case.get('scales') or []):
        ms = ms / max(1.0, max(abs(s['f']) for s in case['scales']))
    ground = case['env']['kind'] != 'free'
    n = 0
    # ends that share bit-identical coordinates: some of them are moved TOGETHER first (two wires given with the same
    # slightly different numbers at a junction whose first wire has other numbers)
    groups = {}
    for i, o in enumerate(case['objs']):
        if o['type'] == 'wire':
            for e in ('p1', 'p2'):
                groups.setdefault(tuple(o[e]), []).append((i, e))
    for key in sorted(groups):
        g = groups[key]
        if len(g) < 3 or (ground and abs(key[2]) < 1e-12) or draw(st.floats(0, 1)) >= group_prob:
            continue
        sub = [x for x in g[1:] if draw(st.booleans())] if draw(st.booleans()) else g[1:]
        d = np.array([draw(st.floats(-1, 1)), draw(st.floats(-1, 1)), draw(st.floats(-1, 1))])
        nd = np.linalg.norm(d)
        if nd < 1e-3 or not sub:
            continue
        d = d / nd * draw(st.floats(lo, hi)) * ms
        for i, e in sub:
            case['objs'][i][e] = [float(a_ + b_) for a_, b_ in zip(case['objs'][i][e], d)]
            n += 1
    for o in case['objs']:
        if o['type'] != 'wire':
            continue
        for e in ('p1', 'p2'):
            if draw(st.floats(0, 1)) >= prob:
                continue
            d = np.array([draw(st.floats(-1, 1)), draw(st.floats(-1, 1)), draw(st.floats(-1, 1))])
            on_ground = ground and abs(o[e][2]) < 1e-12
            if on_ground:
                d[2] = 0.0
            nd = np.linalg.norm(d)
            if nd < 1e-3:
                continue
            d = d / nd * draw(st.floats(lo, hi)) * ms
            if on_ground and draw(st.booleans()):
                # an end on the ground plane within the tolerance only: the residue of an arithmetic expression or of
                # a transformation, or a rounded value
                d[2] = draw(st.sampled_from([5.55e-17, -5.55e-17, 1e-12 * ms, 1e-6 * ms, -1e-6 * ms, 1e-4 * ms, 3e-4 * ms, -3e-4 * ms]))
            o[e] = [float(a + b) for a, b in zip(o[e], d)]
            n += 1
    return n


@st.composite
def shuffled(draw, items):
    """a permutation by Fisher-Yates from integer draws (st.permutations is rejected by Hypothesis' byte-string
    provider, i.e. under fuzz_one_input / atheris)"""
    a = list(items)
    for i in range(len(a) - 1, 0, -1):
        j = draw(st.integers(0, i))
        a[i], a[j] = a[j], a[i]
    return a


# ---------------------------------------------------------------------------
# stepped-diameter chains: collinear wires that continue each other with bit-identical segment vectors

@st.composite
def stepped_chain(draw, env_kinds=('free', 'ideal'), nsrc=(1, 2), src_form='any', thick=None, max_seg=8, min_seg=3,
                  tag_styles=None):
    """2..3 wires in one straight line (telescoping element / stepped-diameter mast): the coordinates lie on a
    dyadic lattice (multiples of 2^-k metres), so segment length and direction on both sides of each junction are
    bit-identical - the situation in which the matrix fill may treat neighbouring wires like one wire - while the
    radii differ.  Free space: any lattice direction; over ground: vertical from the ground plane or elevated."""
    f = draw(frequency())
    lam = C_MHZ_M / f
    env = draw(environment(env_kinds))
    ground = env['kind'] != 'free'
    sl = draw(logf(1 / 100., 1 / 12.)) * lam
    q = 2.0 ** math.floor(math.log2(sl / 8.0))          # lattice constant: the segment is 8..16 lattice steps
    sl = round(sl / q) * q
    d = np.array(draw(st.sampled_from([(0, 0, 1), (0, 0, 1), (1, 0, 0), (0, 1, 0), (1, 1, 0), (1, 0, 1), (1, 1, 1)])), float)
    seg = d * sl                                         # exact
    seglen = float(np.linalg.norm(seg))
    nw = draw(st.integers(2, 3))
    ns = [draw(st.integers(min_seg, max_seg)) for _ in range(nw)]
    grounded = ground and d[2] == 1 and d[0] == 0 and d[1] == 0 and draw(st.booleans())
    if ground and not grounded:
        h = math.ceil((seglen * draw(st.floats(1.1, 4.0))) / q) * q
        if d[2] > 0:
            start = np.array([0.0, 0.0, h])
        else:
            start = np.array([0.0, 0.0, h])
    elif ground:
        start = np.zeros(3)
    else:
        start = np.array([draw(st.integers(-8, 8)) * q for _ in range(3)])
    objs = []
    p = start
    rbase = None
    for i in range(nw):
        e = p + seg * ns[i]
        hi = seglen / 8.0 / lam
        if thick is True:
            r = draw(logf(min(1.0001e-4, hi), hi))
        elif thick is False:
            r = draw(logf(1e-7, min(hi, 0.99e-4)))
        else:
            r = draw(logf(1e-6, hi))
        if rbase is not None and draw(st.booleans()):
            # moderate steps are the common case (telescoping tubes)
            r = min(hi, max(1e-7, rbase * draw(st.sampled_from([0.5, 0.7, 0.8, 1.25, 1.5, 2.0, 4.0, 0.25]))))
        rbase = r
        o = dict(type='wire', n=ns[i], p1=[float(x) for x in p], p2=[float(x) for x in e], r=r6(r * lam), tag=None,
                 taper=0, tmin=None, tmax=None, _rev=False)
        objs.append(o)
        p = e
    # order of definition is drawn; direction is kept for most wires (a reversed wire has the opposite direction
    # vector: its junction pulses are then not of the bit-identical kind)
    for o in objs:
        if draw(st.integers(0, 4)) == 0:
            o['p1'], o['p2'] = o['p2'], o['p1']
            o['_rev'] = True
    objs = draw(shuffled(objs))
    case = {'f': f, 'env': env, 'objs': objs, 'xforms': [], 'scales': [], 'sources': [], 'loads': []}
    style = draw(tags(objs, tag_styles or ('auto', 'consecutive', 'sparse', 'permuted', 'mixed')))
    if nsrc[1] > 0:
        draw(sources(case, nsrc[0], nsrc[1], src_form))
    case['_info'] = dict(template='stepped-chain', tag_style=style, tapered=False)
    return case
