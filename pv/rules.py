"""Validator for the documented thin-wire modelling rules, on the *input
description* only (never asks the code under test).  Returns a reason string
when a rule is violated, None when the case is inside the domain."""
import math
import numpy as np
from .ref import geometry as rgeo

C_MHZ_M = 299.8


def seg_seg_dist(p1, q1, p2, q2):
    """minimum distance between segments p1q1 and p2q2"""
    d1, d2, r = q1 - p1, q2 - p2, p1 - p2
    a, e, f = d1 @ d1, d2 @ d2, d2 @ r
    if a <= 1e-300 and e <= 1e-300:
        return float(np.linalg.norm(r))
    if a <= 1e-300:
        s, t = 0.0, min(max(f / e, 0), 1)
    else:
        c = d1 @ r
        if e <= 1e-300:
            t, s = 0.0, min(max(-c / a, 0), 1)
        else:
            b = d1 @ d2
            den = a * e - b * b
            s = min(max((b * f - c * e) / den, 0), 1) if den > 1e-300 else 0.0
            t = (b * s + f) / e
            if t < 0:
                t, s = 0.0, min(max(-c / a, 0), 1)
            elif t > 1:
                t, s = 1.0, min(max((b - c) / a, 0), 1)
    return float(np.linalg.norm(p1 + d1 * s - p2 - d2 * t))


def polyline(it):
    o = it['obj']
    if o['type'] == 'wire':
        return rgeo.equal_segments(it['pts'][0], it['pts'][1], o['n'])
    return it['pts']


def check(case, min_angle=40.0, sep=2.0, seg_lo=1 / 200.0, seg_hi=1 / 10.0, seg_r=8.0,
          rise=20.0, clearance=1.0, check_seg=True, max_ratio=2.0):
    lam = C_MHZ_M / case['f']
    items = rgeo.transformed(case)
    ground = case.get('env') is not None and case['env']['kind'] != 'free'
    polys = [polyline(it) for it in items]
    lens = [np.linalg.norm(np.diff(p, axis=0), axis=1) for p in polys]
    minseg = min(l.min() for l in lens)
    tol = 1e-3 * minseg
    for it, l in zip(items, lens):
        if check_seg:
            tapered = it['obj'].get('taper')
            if not tapered:
                if l.min() < seg_lo * lam * (1 - 1e-6) or l.max() > seg_hi * lam * (1 + 1e-6):
                    return 'segment length outside lambda/200..lambda/10'
                if l.min() < seg_r * it['r'] * (1 - 1e-6):
                    return 'segment shorter than 8 radii'
    # ends / junctions
    ends = []
    for w, p in enumerate(polys):
        ends.append((w, 0, p[0], p[1] - p[0]))
        ends.append((w, 1, p[-1], p[-2] - p[-1]))
    joined = {}
    gnd_pts = []
    for i, (w, e, pt, d) in enumerate(ends):
        if ground and abs(pt[2]) < tol:
            # rise angle of a grounded wire
            el = math.degrees(math.asin(min(1.0, abs(d[2]) / np.linalg.norm(d))))
            if d[2] <= 0 or el < rise - 1e-6:
                return 'grounded wire rises less than 20 degrees'
            for q in gnd_pts:
                if np.linalg.norm(q - pt) < sep * max(lens[w].max(), minseg):
                    return 'two grounded ends closer than two segment lengths'
            gnd_pts.append(pt)
            continue
        for j in range(i):
            w2, e2, pt2, d2 = ends[j]
            if ground and abs(pt2[2]) < tol:
                continue
            dist = np.linalg.norm(pt - pt2)
            if dist <= tol:
                if w2 == w:
                    pass
                ang = math.degrees(math.acos(max(-1, min(1, d @ d2 / np.linalg.norm(d) / np.linalg.norm(d2)))))
                if ang < min_angle - 1e-6:
                    return 'junction angle below 40 degrees'
                la, lb = np.linalg.norm(d), np.linalg.norm(d2)
                if max(la, lb) > max_ratio * min(la, lb) * (1 + 1e-6):
                    return 'adjacent segments differ in length by more than a factor 2'
                joined.setdefault(w, set()).add(w2)
                joined.setdefault(w2, set()).add(w)
            elif dist < 2.5 * tol:
                return 'end distance in the knife-edge band of the matching tolerance'
    nb = {w: joined.get(w, set()) | {w} for w in range(len(items))}
    for a in range(len(items)):
        for b in range(a + 1, len(items)):
            if b in nb[a]:
                continue
            need = sep * max(lens[a].max(), lens[b].max())
            if nb[a] & nb[b]:
                # joined through a common neighbour: they start close to each other by construction,
                # but they must not approach (or cross) each other anywhere else
                ee = min(np.linalg.norm(x - y) for x in (polys[a][0], polys[a][-1]) for y in (polys[b][0], polys[b][-1]))
                need = min(need, 0.7 * ee)
                pa, pb = polys[a], polys[b]
                for i in range(len(pa) - 1):
                    for j in range(len(pb) - 1):
                        if seg_seg_dist(pa[i], pa[i + 1], pb[j], pb[j + 1]) < need:
                            return 'wires joined through a common neighbour approach or cross each other'
                continue
            pa, pb = polys[a], polys[b]
            # coarse bounding test first
            if np.linalg.norm(pa.mean(0) - pb.mean(0)) > need + np.linalg.norm(pa - pa.mean(0), axis=1).max() \
                    + np.linalg.norm(pb - pb.mean(0), axis=1).max():
                continue
            for i in range(len(pa) - 1):
                for j in range(len(pb) - 1):
                    if seg_seg_dist(pa[i], pa[i + 1], pb[j], pb[j + 1]) < need:
                        return 'unjoined wires closer than two segment lengths'
    # directly joined wires must not fold back onto each other elsewhere: covered by angle rule
    if ground:
        for w, p in enumerate(polys):
            for k, pt in enumerate(p):
                is_end = k in (0, len(p) - 1)
                if pt[2] < -tol:
                    return 'below ground'
                if is_end and abs(pt[2]) < tol:
                    continue
                if pt[2] < clearance * lens[w].max() * (1 - 1e-9):
                    # interior points of a grounded, rising wire are legitimately lower
                    g0 = abs(p[0][2]) < tol
                    g1 = abs(p[-1][2]) < tol
                    if g0 or g1:
                        continue
                    return 'wire closer than one segment length to ground'
    return None
