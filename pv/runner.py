"""Generic campaign runner: sharded Hypothesis search, collect-bucket-shrink,
known-finding matching, evidence writing.  See DESIGN.md section 2."""
import os
import sys
import json
import time
import glob
import hashlib
import importlib
import traceback
import collections
import multiprocessing

ROOT = os.path.dirname(os.path.dirname(os.path.abspath(__file__)))
NPROC = int(os.environ.get('PV_NPROC', '16'))


class Result:
    """Outcome of one property evaluation.
    fails: list of (signature, detail); empty list = property held on this case."""
    __slots__ = ('fails', 'nontrivial', 'labels', 'skipped', 'info')

    def __init__(self, fails=None, nontrivial=False, labels=(), skipped=None, info=None):
        self.fails = list(fails or [])
        self.nontrivial = bool(nontrivial)
        self.labels = list(labels)
        self.skipped = skipped
        self.info = info

    @property
    def ok(self):
        return not self.fails


def annotate(case):
    try:
        from . import common
        common.annotate(case)
    except Exception:
        pass


def canon(case):
    return json.dumps(case, sort_keys=True, default=_json_default)


def _json_default(o):
    import numpy as np
    if isinstance(o, (np.integer,)):
        return int(o)
    if isinstance(o, (np.floating,)):
        return float(o)
    if isinstance(o, np.ndarray):
        return o.tolist()
    if isinstance(o, complex):
        return [o.real, o.imag]
    raise TypeError(type(o))


def case_hash(case):
    return hashlib.sha1(canon(case).encode()).hexdigest()


def load_known():
    p = os.path.join(ROOT, 'known_findings.json')
    if not os.path.exists(p):
        return []
    return json.load(open(p))


def known_match(known, prop_id, sig):
    for k in known:
        if k.get('status') != 'known' or k.get('property') != prop_id:
            continue
        if k['signature'] == sig:
            return k
        if k['signature'].endswith('*') and not k['signature'].startswith('*') and sig.startswith(k['signature'][:-1]):
            return k
        if k['signature'].count('*') == 1 and not k['signature'].startswith('*') and not k['signature'].endswith('*'):
            a_, b_ = k['signature'].split('*')
            if sig.startswith(a_) and sig.endswith(b_) and len(sig) >= len(a_) + len(b_):
                return k
        if k['signature'].startswith('*') and k['signature'].endswith('*') and len(k['signature']) > 2 \
                and k['signature'][1:-1] in sig:
            return k
        if k['signature'].startswith('*') and sig.endswith(k['signature'][1:]):
            return k
    return None


def strip_private(case):
    """drop helper keys starting with '_' so that stored cases are pure input"""
    if isinstance(case, dict):
        return {k: strip_private(v) for k, v in case.items() if not str(k).startswith('_')}
    if isinstance(case, list):
        return [strip_private(v) for v in case]
    return case


# --------------------------------------------------------------------------
# worker

def _worker(args):
    prop_id, tier, seed, widx, n_examples, deadline, target_sig = args
    os.environ.setdefault('OMP_NUM_THREADS', '1')
    os.environ.setdefault('OPENBLAS_NUM_THREADS', '1')
    os.environ.setdefault('MKL_NUM_THREADS', '1')
    import warnings
    warnings.simplefilter('ignore')
    import numpy as np
    np.seterr(all='ignore')
    from hypothesis import given, settings, HealthCheck, Phase, seed as hseed
    mod = importlib.import_module('pv.props.' + prop_id.lower())
    st = {
        'evaluations': 0, 'nt': set(), 'labels': collections.Counter(), 'skipped': collections.Counter(),
        'fails': {}, 'samples': [], 'truncated': False, 'error': None, 'shrunk': None,
    }
    strat = mod.strategy(tier)

    class Target(Exception):
        pass

    shrink_state = {'seen': 0, 'budget': int(os.environ.get('PV_SHRINK_BUDGET', '250')), 'last': None}

    def body(case):
        if time.time() > deadline:
            st['truncated'] = True
            return
        if target_sig is not None and shrink_state['seen'] > shrink_state['budget']:
            return
        case = json.loads(canon(case))
        res, herr = evaluate(mod, case)
        if herr:
            st['error'] = herr
            return
        st['evaluations'] += 1
        if res.skipped:
            st['skipped'][res.skipped] += 1
            return
        for l in res.labels:
            st['labels'][l] += 1
        pure = strip_private(case)
        if res.nontrivial:
            st['nt'].add(case_hash(pure))
        if len(st['samples']) < 40 and (st['evaluations'] % 7 == 1 or res.nontrivial):
            st['samples'].append((len(canon(pure)), res.nontrivial, pure))
        for sig, detail in res.fails:
            size = len(canon(pure))
            cur = st['fails'].get(sig)
            if cur is None or size < cur['size']:
                st['fails'][sig] = {'size': size, 'case': pure, 'detail': detail,
                                    'count': (cur['count'] if cur else 0) + 1}
            else:
                cur['count'] += 1
        if target_sig is not None:
            sigs = [s for s, _ in res.fails]
            if target_sig in sigs:
                shrink_state['seen'] += 1
                shrink_state['last'] = (pure, dict(res.fails)[target_sig])
                raise Target(target_sig)

    phases = [Phase.generate] if target_sig is None else [Phase.generate, Phase.shrink]
    sett = settings(max_examples=n_examples, database=None, deadline=None, derandomize=False,
                    report_multiple_bugs=False, phases=phases, print_blob=False,
                    suppress_health_check=[HealthCheck.too_slow, HealthCheck.data_too_large,
                                           HealthCheck.large_base_example])
    test = hseed(seed * 1000 + widx)(sett(given(strat)(body)))
    try:
        test()
    except Target:
        pass
    except Exception as e:
        name = type(e).__name__
        if target_sig is not None and name in ('Flaky', 'FlakyFailure', 'FlakyStrategyDefinition'):
            pass
        else:
            st['error'] = '%s: %s' % (name, traceback.format_exc()[-2000:])
    if target_sig is not None:
        st['shrunk'] = shrink_state['last']
    st['nt'] = list(st['nt'])
    st['labels'] = dict(st['labels'])
    st['skipped'] = dict(st['skipped'])
    return st


# --------------------------------------------------------------------------

def replay_files(prop_id):
    return sorted(glob.glob(os.path.join(ROOT, 'replays', prop_id, '*.json')))


def kernel_knife_edge(case):
    """True if a wire radius equals 1e-4 wavelength to within 1e-6: the program switches between its thin-wire and
    its exact kernel at that radius, so on the threshold rounding (of a scaled radius, of the eight printed digits of
    the frequency) decides which model is solved and any comparison of two solves is meaningless"""
    try:
        lam = 299.8 / float(case['f'])
        scales = case.get('scales') or []
        g = 1.0
        for s_ in scales:
            if s_.get('tag') is None:
                g *= float(s_['f'])
        cands = [1.0, g] + [g * float(s_['f']) for s_ in scales if s_.get('tag') is not None]
        for o in case['objs']:
            for c in cands:
                if abs(float(o['r']) * c / (1e-4 * lam) - 1.0) < 1e-6:
                    return True
    except Exception:
        return False
    return False


def evaluate(mod, case):
    """run mod.check(case); returns (Result, None) or (None, text of a harness error).  An exception raised inside
    the program under test (innermost frame in the repository) is a failure of the property being checked (the
    program must not raise for inputs it accepted); a pv.build.Rejected that no check handled means that the program
    answered a VARIANT of a description it had accepted with a diagnostic; anything else is a bug of the harness
    and is reported as such (exit 2), never as a violation"""
    try:
        annotate(case)
        if isinstance(case, dict) and 'objs' in case and 'f' in case and not getattr(mod, 'KERNEL_EDGE_IRRELEVANT', False) \
                and kernel_knife_edge(case):
            return Result(skipped='knife-edge: a wire radius on the thin / exact kernel threshold of 1e-4 wavelength'), None
        if isinstance(case, dict) and case.get('timing'):
            import io, contextlib
            with contextlib.redirect_stderr(io.StringIO()):        # the program's timing lines
                return mod.check(case), None
        return mod.check(case), None
    except Exception as e:
        tb = traceback.extract_tb(e.__traceback__)
        repo = os.environ.get('PV_REPO', '/repo')
        here = os.path.dirname(os.path.realpath(__file__)) + os.sep
        # innermost frame that belongs to the program under test or to the harness (library frames below it - numpy
        # raising inside a call made by the program - are attributed to their caller)
        own = [f for f in tb if os.path.realpath(f.filename).startswith(os.path.realpath(repo) + os.sep)
               or os.path.realpath(f.filename).startswith(here)]
        inner = own[-1] if own else (tb[-1] if tb else None)
        prog = [f for f in tb if os.path.realpath(f.filename).startswith(os.path.realpath(repo) + os.sep)]
        if prog and inner is not None and os.path.realpath(inner.filename).startswith(os.path.realpath(repo) + os.sep):
            return Result(fails=[('program-exception:%s@%s' % (type(e).__name__, inner.name),
                                  '%s in %s line %d: %s' % (type(e).__name__, inner.name, inner.lineno, str(e)[:200]))],
                          nontrivial=True), None
        if type(e).__name__ == 'Rejected' and inner is not None and inner.name == 'model':
            import re as _re
            return Result(fails=[('variant-of-accepted-model-rejected:' + _re.sub(r'[0-9.+-]+', '#', str(e))[:40].strip(),
                                  'the program rejects a variant of a model it accepted: %s' % str(e)[:300])], nontrivial=True), None
        return None, 'exception in the harness:\n' + traceback.format_exc()[-2500:]


def run_replay(prop_id, path):
    mod = importlib.import_module('pv.props.' + prop_id.lower())
    case = json.load(open(path))
    if isinstance(case, dict) and 'case' in case and 'property' in case:
        case = case['case']
    case = json.loads(canon(case))
    res, herr = evaluate(mod, case)
    if herr:
        print('HARNESS ERROR: ' + herr, file=sys.stderr)
        sys.exit(2)
    return case, res


def main(prop_id, tier='quick', replay=None):
    """runs _main with a private scratch directory as TMPDIR (inherited by the spawned workers and the fuzzing
    processes) and removes it afterwards, so that scratch files of workers that are terminated at the end of a wall
    budget do not stay behind"""
    import tempfile, shutil
    scratch = tempfile.mkdtemp(prefix='pv-run-')
    old_env, old_td = os.environ.get('TMPDIR'), tempfile.tempdir
    os.environ['TMPDIR'] = scratch
    tempfile.tempdir = scratch
    try:
        return _main(prop_id, tier, replay)
    finally:
        tempfile.tempdir = old_td
        if old_env is None:
            os.environ.pop('TMPDIR', None)
        else:
            os.environ['TMPDIR'] = old_env
        shutil.rmtree(scratch, ignore_errors=True)


def _main(prop_id, tier='quick', replay=None):
    t0 = time.time()
    seed = int(os.environ.get('VERIF_SEED', '1'))
    mod = importlib.import_module('pv.props.' + prop_id.lower())
    known = load_known()
    outdir = os.path.join(os.environ.get('PV_OUT_DIR', os.path.join(ROOT, 'out')), prop_id)
    os.makedirs(outdir, exist_ok=True)

    if replay:
        case, res = run_replay(prop_id, replay)
        viol = 0
        for sig, detail in res.fails:
            k = known_match(known, prop_id, sig)
            if k:
                print('KNOWN-FINDING: property=%s %s' % (prop_id, k['what']))
            else:
                viol += 1
                print('VIOLATION property=%s replay=%s' % (prop_id, replay))
                print('  signature:', sig)
                print('  detail   :', detail)
        if res.skipped:
            print('case outside the domain:', res.skipped)
        if not viol:
            print('replay ok (nontrivial=%s labels=%s)' % (res.nontrivial, res.labels))
        return 1 if viol else 0

    budget = mod.BUDGET[tier]
    n_examples = int(budget['examples'] * float(os.environ.get('PV_SCALE', '1')))
    wall = float(os.environ.get('PV_BUDGET_S', budget.get('wall', 240 if tier == 'quick' else 1500)))
    deadline = t0 + wall
    nproc = min(NPROC, max(1, n_examples // max(1, budget.get('min_per_worker', 10))))
    per = [n_examples // nproc + (1 if i < n_examples % nproc else 0) for i in range(nproc)]

    agg = {'evaluations': 0, 'nt': set(), 'labels': collections.Counter(), 'skipped': collections.Counter(),
           'fails': {}, 'samples': [], 'truncated': False, 'errors': []}

    def merge(st, widx=None):
        agg['evaluations'] += st['evaluations']
        agg['nt'].update(st['nt'])
        agg['labels'].update(st['labels'])
        agg['skipped'].update(st['skipped'])
        agg['samples'] += st['samples']
        agg['truncated'] |= st['truncated']
        if st['error']:
            agg['errors'].append(st['error'])
        for sig, f in st['fails'].items():
            f = dict(f, worker=widx)
            cur = agg['fails'].get(sig)
            if cur is None:
                agg['fails'][sig] = f
            else:
                cnt = cur['count'] + f['count']
                if f['size'] < cur['size']:
                    agg['fails'][sig] = f
                agg['fails'][sig]['count'] = cnt

    # 1. replay corpus (committed regression cases), in-process
    n_replay = 0
    for path in replay_files(prop_id):
        case, res = run_replay(prop_id, path)
        n_replay += 1
        pure = strip_private(case)
        st = {'evaluations': 1, 'nt': [case_hash(pure)] if res.nontrivial else [],
              'labels': {l: 1 for l in res.labels}, 'skipped': {}, 'samples': [], 'truncated': False,
              'error': None,
              'fails': {s: {'size': len(canon(pure)), 'case': pure, 'detail': d, 'count': 1,
                            'replay': path} for s, d in res.fails}}
        merge(st)

    # 2. optional exhaustive / enumerated part supplied by the property module
    extra_info = None
    if hasattr(mod, 'enumerate_part'):
        st, extra_info = mod.enumerate_part(tier, seed, NPROC, deadline)
        merge(st)

    # 3. generated search
    ctx = multiprocessing.get_context('spawn')
    if n_examples > 0:
        with ctx.Pool(nproc) as pool:
            jobs = [(prop_id, tier, seed, i, per[i], deadline, None) for i in range(nproc)]
            for i, st in enumerate(pool.imap(_worker, jobs)):
                merge(st, i)

    # classify failures
    unknown = {}
    known_hit = {}
    for sig, f in agg['fails'].items():
        k = known_match(known, prop_id, sig)
        if k:
            known_hit.setdefault(k['key'], [k, 0])[1] += f['count']
        else:
            unknown[sig] = f

    # 4. shrink unknown buckets (at most 5)
    viol_paths = []
    shrink_wall = float(os.environ.get('PV_SHRINK_S', '120' if tier == 'quick' else '400'))
    todo = sorted(unknown.items(), key=lambda kv: kv[1]['size'])[:5]
    if todo:
        sd = time.time() + shrink_wall
        jobs = []
        for sig, f in todo:
            if f.get('worker') is not None and os.environ.get('PV_NO_SHRINK') != '1':
                jobs.append((prop_id, tier, seed, f['worker'], per[f['worker']], sd, sig))
        shrunk = {}
        if jobs:
            with ctx.Pool(min(len(jobs), NPROC)) as pool:
                for job, st in zip(jobs, pool.imap(_worker, jobs)):
                    if st.get('shrunk'):
                        shrunk[job[6]] = st['shrunk']
        for sig, f in unknown.items():
            case, detail = f['case'], f['detail']
            if sig in shrunk and len(canon(shrunk[sig][0])) <= f['size']:
                case, detail = shrunk[sig]
            if f.get('replay'):
                path = f['replay']
            else:
                name = hashlib.sha1(sig.encode()).hexdigest()[:10]
                path = os.path.join(outdir, 'viol_%s.json' % name)
                json.dump({'property': prop_id, 'signature': sig, 'detail': detail, 'seed': seed,
                           'tier': tier, 'case': case}, open(path, 'w'), indent=1, default=_json_default)
            viol_paths.append((sig, path, detail, f['count']))

    # 5. label floors
    floor_err = []
    floor_margin = []
    total_ok = agg['evaluations'] - sum(agg['skipped'].values())
    total_ok -= agg['labels'].get(getattr(mod, 'FLOOR_EXCLUDE_LABEL', '\0'), 0)
    for lab, frac in getattr(mod, 'LABEL_FLOORS', {}).items():
        got = agg['labels'].get(lab, 0) / max(1, total_ok)
        # the floors in the modules are the fractions the generators were tuned to; the alarm level is 60 % of them
        # so that seed-to-seed variation of the smaller classes does not stop a run
        if got < 0.6 * frac and n_examples >= 200 and total_ok >= 200:
            floor_err.append('label %s: %.3f < floor %.3f' % (lab, got, frac))
        floor_margin.append((got / (0.6 * frac), lab))
    if floor_margin:
        print('  smallest label-floor margin: %s at %.2f times its alarm level' % (min(floor_margin)[1], min(floor_margin)[0]))

    # evidence
    samples = sorted(agg['samples'], key=lambda s: s[0])
    nts = [s for s in samples if s[1]] or samples
    pick = []
    if nts:
        for i in sorted(set([0, len(nts) // 2, len(nts) - 1])):
            pick.append(nts[i][2])
    rej = sum(agg['skipped'].values())
    ev = {
        'property_id': prop_id, 'tier': tier, 'seed': seed, 'level': 'exploration',
        'coverage': {
            'evaluations': agg['evaluations'],
            'distinct_nontrivial': len(agg['nt']),
            'rule': mod.RULE,
            'samples': pick,
            'labels': dict(agg['labels'].most_common()),
            'outside_domain': dict(agg['skipped']),
            'rejected_fraction': rej / max(1, agg['evaluations']),
            'replayed_corpus_cases': n_replay,
            'excluded_known': {k: v[1] for k, v in known_hit.items()},
            'truncated': agg['truncated'],
            'violation_buckets': [{'signature': s, 'replay': p, 'count': c} for s, p, d, c in viol_paths],
        },
        'assumptions': list(getattr(mod, 'ASSUMPTIONS', [])),
        'wall_s': round(time.time() - t0, 2),
        'violations': len(viol_paths),
    }
    if extra_info:
        ev['coverage'].update(extra_info)
    evpath = os.path.join(os.environ.get('PV_EVIDENCE_DIR', os.path.join(ROOT, 'evidence')), '%s.json' % prop_id)
    os.makedirs(os.path.dirname(evpath), exist_ok=True)
    json.dump(ev, open(evpath, 'w'), indent=1, default=_json_default)

    for key, (k, cnt) in sorted(known_hit.items()):
        print('KNOWN-FINDING: property=%s %s (%d cases)' % (prop_id, k['what'], cnt))
    print('%s %s seed=%d: %d evaluations, %d distinct non-trivial, %d outside domain, %.1f s%s' % (
        prop_id, tier, seed, agg['evaluations'], len(agg['nt']), rej, time.time() - t0,
        ' (TRUNCATED by wall-clock budget)' if agg['truncated'] else ''))
    top = ', '.join('%s=%d' % kv for kv in agg['labels'].most_common(14))
    print('  labels:', top)
    if agg['errors']:
        print('HARNESS ERROR in worker:\n' + agg['errors'][0], file=sys.stderr)
        return 2
    if viol_paths:
        for sig, path, detail, cnt in viol_paths:
            print('VIOLATION property=%s replay=%s' % (prop_id, path))
            print('  signature: %s (%d cases)' % (sig, cnt))
            print('  detail   : %s' % str(detail)[:600])
        return 1
    if floor_err:
        print('HARNESS ERROR: generator below label floor: ' + '; '.join(floor_err), file=sys.stderr)
        return 2
    try:
        validate_evidence(evpath)
    except Exception as e:
        print('HARNESS ERROR: evidence invalid: %s' % e, file=sys.stderr)
        return 2
    return 0


def validate_evidence(path):
    try:
        import jsonschema
    except ImportError:
        return
    sp = '/root/.vp/EVIDENCE.schema.json'
    if not os.path.exists(sp):
        sp = os.path.join(ROOT, 'schemas', 'EVIDENCE.schema.json')
    if not os.path.exists(sp):
        return
    jsonschema.validate(json.load(open(path)), json.load(open(sp)))
