import os
import sys
import argparse


def cli():
    ap = argparse.ArgumentParser()
    ap.add_argument('prop')
    ap.add_argument('--tier', default=os.environ.get('VERIF_TIER', 'quick'), choices=['quick', 'thorough'])
    ap.add_argument('--replay')
    a = ap.parse_args()
    try:
        from . import runner
        rc = runner.main(a.prop.upper(), a.tier, a.replay)
    except SystemExit:
        raise
    except Exception:
        import traceback
        traceback.print_exc()
        print('HARNESS ERROR', file=sys.stderr)
        rc = 2
    sys.exit(rc)


if __name__ == '__main__':
    cli()
