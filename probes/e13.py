import time, numpy as np, sys
from mininec.mininec import *
from numpy.polynomial.legendre import leggauss
exec(open('e4.py').read().split("def check")[0].split("from numpy.polynomial.legendre import leggauss")[1])
def angle(u,v): return np.degrees(np.arccos(np.clip(u@v/np.linalg.norm(u)/np.linalg.norm(v),-1,1)))
def gen(rng):
    lam=1.0; f=299.8
    nw=rng.integers(1,5)
    ground=rng.random()<0.5
    seg=rng.uniform(lam/150,lam/12)
    wires=[]; pts=[]
    start=np.array([0,0,0.]) if (ground and rng.random()<0.5) else np.array([0,0,rng.uniform(seg*1.5,0.6)]) if ground else rng.uniform(-1,1,3)
    ends=[start]; dirs_at={}  # star/chain mix
    tries=0
    while len(wires)<nw and tries<200:
        tries+=1
        base_i=rng.integers(0,len(ends)); base=ends[base_i]
        d=rng.normal(size=3); d/=np.linalg.norm(d)
        if ground and base[2]==0 and np.degrees(np.arcsin(abs(d[2])))<25: continue
        if ground and base[2]==0: d[2]=abs(d[2])
        n=int(rng.integers(3,13)); sl=seg*rng.uniform(0.7,1.4); sl=min(max(sl,lam/190),lam/10.5)
        e=base+d*n*sl
        if ground and e[2]<sl*1.2: continue
        # angle to existing wires at base
        ok=True
        for (a,b,_,_,_) in wires:
            for P,Q in ((a,b),(b,a)):
                if np.allclose(P,base):
                    if angle(Q-P,e-base)<45: ok=False
        # distance from other wires (crude: sample points)
        for (a,b,_,sl2,_) in wires:
            ts=np.linspace(0,1,40)[:,None]
            A=a+(b-a)*ts; B=base+(e-base)*np.linspace(0.0,1,40)[:,None]
            D=np.linalg.norm(A[:,None,:]-B[None,:,:],axis=2)
            if np.allclose(a,base) or np.allclose(b,base):
                # allowed to touch at base only: check far portions
                D=np.linalg.norm(A[:,None,:]-B[None,8:,:],axis=2)
                maskA=np.linalg.norm(A-base,axis=1)>2.5*max(sl,sl2)
                if maskA.any() and D[maskA].min()<2.2*max(sl,sl2): ok=False
            elif D.min()<2.2*max(sl,sl2): ok=False
        if not ok: continue
        r=sl/rng.uniform(8.5,200)
        wires.append((base.copy(),e,n,sl)); ends.append(e)
        wires[-1]=(base.copy(),e,n,sl); 
        wires[-1]=wires[-1]+(r,)
    return f,ground,[(n,a,b,r) for (a,b,n,sl,r) in wires]
rng=np.random.default_rng(int(sys.argv[1]))
res=[]
t0=time.time()
for it in range(40):
    f,ground,ws=gen(rng)
    if not ws: continue
    try:
        m=Mininec(f,[Wire(n,*a,*b,r) for n,a,b,r in ws],media=[ideal_ground] if ground else None)
    except ValueError as e:
        print('reject',e); continue
    N=len(m.pulses); ns=int(rng.integers(1,3))
    idx=rng.choice(N,size=min(ns,N),replace=False)
    for i in idx: m.register_source(Excitation(complex(rng.normal(),rng.normal())),int(i))
    nl=int(rng.integers(0,3))
    for i in rng.choice(N,size=min(nl,N),replace=False): m.register_load(Impedance_Load(complex(rng.uniform(0,300),rng.normal()*200)),int(i))
    m.compute()
    cond=np.linalg.cond(m.Z)
    r=prad_ratio(m,nth=32,nph=48,ground=ground)
    pin=sum(s.power for s in m.sources); papp=sum(abs(0.5*s.voltage*np.conj(s.current)) for s in m.sources)
    pl=sum(0.5*l.impedance(m.f,p).real*abs(m.current[p.idx])**2 for l in m.loads for p in l.pulses)
    res.append(((pin-pl-r*pin)/papp,cond,len(ws),ground,N))
    print('%+.5f cond=%.0f nw=%d g=%d N=%d'%res[-1])
print('max |imb|',max(abs(x[0]) for x in res),'time',time.time()-t0)
