import time, numpy as np, collections, itertools
from hypothesis import given, settings, strategies as st, seed, HealthCheck, assume, event
DIRS=[np.array(v,float)/np.linalg.norm(v) for v in [(1,0,0),(-1,0,0),(0,1,0),(0,-1,0),(0,0,1),(0,0,-1),(1,1,1),(-1,1,1),(1,-1,1),(-1,-1,1),(1,1,-1),(-1,1,-1),(1,-1,-1),(-1,-1,-1)]]
def ang(u,v): return np.degrees(np.arccos(np.clip(u@v,-1,1)))
@st.composite
def antenna(draw):
    lam=1.0
    tmpl=draw(st.sampled_from(['single','chain','star','tee','loop','two']))
    ground=draw(st.sampled_from(['free','ideal']))
    nw={'single':1,'chain':draw(st.integers(2,4)),'star':draw(st.integers(3,4)),'tee':3,'loop':draw(st.integers(3,5)),'two':2}[tmpl]
    seg0=draw(st.floats(1/150,1/12))
    wires=[]
    def wire(a,d):
        n=draw(st.integers(1,10)); sl=seg0*draw(st.floats(0.75,1.3)); sl=min(max(sl,1/195),1/10.5)
        r=sl/draw(st.floats(8.5,300)); b=a+d*n*sl; return dict(n=n,p1=a,p2=b,r=r,sl=sl)
    pos=np.zeros(3); used=[]
    if tmpl in('single','chain','two'):
        k=nw if tmpl!='two' else 1
        prev=None
        for i in range(k):
            cand=[j for j in range(len(DIRS)) if prev is None or ang(DIRS[j],-DIRS[prev])>=44]
            j=draw(st.sampled_from(cand)); w=wire(pos,DIRS[j]); wires.append(w); pos=w['p2']; prev=j
        if tmpl=='two':
            j=draw(st.sampled_from(range(len(DIRS)))); off=DIRS[draw(st.sampled_from(range(6)))]*draw(st.floats(0.3,1.0))
            wires.append(wire(off+np.array([0.01,0.02,0.03]),DIRS[j]))
    elif tmpl in('star','tee'):
        js=draw(st.lists(st.sampled_from(range(len(DIRS))),min_size=nw,max_size=nw,unique=True))
        assume(all(ang(DIRS[a],DIRS[b])>=44 for a,b in itertools.combinations(js,2)))
        for j in js: wires.append(wire(pos,DIRS[j]))
    else:
        # planar regular polygon loop with equal sides
        n=draw(st.integers(2,6)); sl=seg0; R=n*sl/(2*np.sin(np.pi/nw)); r=sl/draw(st.floats(8.5,300))
        P=[np.array([R*np.cos(2*np.pi*i/nw),R*np.sin(2*np.pi*i/nw),0]) for i in range(nw)]
        for i in range(nw): wires.append(dict(n=n,p1=P[i],p2=P[(i+1)%nw],r=r,sl=sl))
    # reversal, permutation, rotation
    rot=[draw(st.floats(-180,180)) for _ in range(3)]
    for w in wires:
        if draw(st.booleans()): w['p1'],w['p2']=w['p2'],w['p1']
    perm=draw(st.permutations(range(len(wires)))); wires=[wires[i] for i in perm]
    return dict(tmpl=tmpl,ground=ground,wires=wires,rot=rot)
def mindist_ok(ws):
    for a,b in itertools.combinations(ws,2):
        ta=np.linspace(0,1,12)[:,None]; A=a['p1']+(a['p2']-a['p1'])*ta; B=b['p1']+(b['p2']-b['p1'])*ta
        D=np.linalg.norm(A[:,None]-B[None],axis=2); sl=max(a['sl'],b['sl'])
        shared=min(np.linalg.norm(p-q) for p in (a['p1'],a['p2']) for q in (b['p1'],b['p2']))<1e-9
        if not shared and D.min()<2*sl: return False
    return True
cnt=collections.Counter(); t0=time.time()
@seed(1)
@settings(max_examples=2000,database=None,deadline=None,suppress_health_check=list(HealthCheck))
@given(antenna())
def t(c):
    cnt['n']+=1; cnt[c['tmpl']]+=1
    if not mindist_ok(c['wires']): cnt['rej']+=1; return
    from mininec.mininec import Mininec,Wire,Excitation
    m=Mininec(299.8,[Wire(w['n'],*w['p1'],*w['p2'],w['r']) for w in c['wires']])
    if len(m.pulses)==0: cnt['nopulse']+=1; return
    m.register_source(Excitation(1+0j),0); m.compute(); cnt['solved']+=1
t(); print(cnt, time.time()-t0)
