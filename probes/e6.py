import time, numpy as np
from scipy.integrate import quad_vec
from mininec.mininec import *
def seg_int(obs,a,b,r,k):
    """returns psi=int K dl and grad_obs psi over straight a->b, reduced kernel"""
    L=np.linalg.norm(b-a)
    def f(t):
        d=obs-(a+(b-a)*t); R=np.sqrt(d@d+r*r)
        e=np.exp(-1j*k*R)
        return np.concatenate([[e/R], -(1+1j*k*R)*e/R**3*d])
    v,err=quad_vec(f,0,1,epsabs=1e-12,epsrel=1e-10)
    return v[0]*L, v[1:]*L
def fields(m,obs):
    k=m.w; mm=m.m
    E=np.zeros(3,complex); Hc=np.zeros(3,complex)
    M=np.array([1,1,-1.])
    for p,I in zip(m.pulses,m.current):
        paths=[(p.ends[0],p.point,p.ends[1],1.0)]
        if m.media is not None and not p.ground.any():
            paths.append((p.ends[0]*M,p.point*M,p.ends[1]*M,-1.0))
        for e0,pt,e1,sg in paths:
            r0=p.geo[0].r; r1=p.geo[1].r
            L0=np.linalg.norm(pt-e0); L1=np.linalg.norm(e1-pt)
            t0=(pt-e0)/L0; t1=(e1-pt)/L1
            pv,gv=seg_int(obs,(e0+pt)/2,pt,r0,k); pu,gu=seg_int(obs,pt,(pt+e1)/2,r1,k)
            _,g0=seg_int(obs,e0,pt,r0,k); _,g1=seg_int(obs,pt,e1,r1,k)
            E+= -1j*mm*I*sg*(k*k*(t0*pv+t1*pu)-(g1/L1-g0/L0))
            Hc+= I*sg*(np.cross(gv,t0)+np.cross(gu,t1))/(4*np.pi)
    return E,Hc
def check(m,pts):
    m.compute()
    for pt in pts:
        pt=np.array(pt,float)
        m.compute_near_field(pt,[1,1,1],[1,1,1])
        E,H=fields(m,pt)
        e=np.array(m.e_field[0]); h=np.array(m.h_field[0])
        print(pt,'E err %.2e H err %.2e'%(np.linalg.norm(e-E)/np.linalg.norm(E),np.linalg.norm(h-H)/np.linalg.norm(H)))
print('straight dipole')
m=Mininec(7,[Wire(10, 0, 0, 0, 21.414285, 0, 0, 0.01)]); m.register_source(Excitation(1+0j),4); check(m,[(1,2,3),(10,-4,2),(30,30,10)])
print('straight oblique dipole')
m=Mininec(7,[Wire(10, 0, 0, 0, 15, 8, 12, 0.01)]); m.register_source(Excitation(1+0j),4); check(m,[(1,2,3),(10,-4,2),(30,30,10)])
print('bent 2 wires same dir convention')
m=Mininec(7,[Wire(5, 0, 0, 0, 10, 0, 0, 0.01),Wire(5,10,0,0,10,0,10,0.01)]); m.register_source(Excitation(1+0j),2); check(m,[(1,2,3),(12,-4,8),(30,30,10)])
print('vertical grounded end1')
m=Mininec(7,[Wire(8, 0, 0, 0, 0, 0, 10, 0.01)],media=[ideal_ground]); m.register_source(Excitation(1+0j),0); check(m,[(1,2,3),(12,-4,8),(3,3,0.5)])
print('vertical grounded end2')
m=Mininec(7,[Wire(8, 0, 0, 10, 0, 0, 0, 0.01)],media=[ideal_ground]); m.register_source(Excitation(1+0j),7); check(m,[(1,2,3),(12,-4,8),(3,3,0.5)])
print('sloped grounded end1')
m=Mininec(7,[Wire(8, 0, 0, 0, 4, 0, 10, 0.01)],media=[ideal_ground]); m.register_source(Excitation(1+0j),0); check(m,[(1,2,3),(12,-4,8),(3,3,0.5)])
print('horizontal over ground')
m=Mininec(7,[Wire(10, 0, 0, 5, 20, 0, 5, 0.01)],media=[ideal_ground]); m.register_source(Excitation(1+0j),4); check(m,[(1,2,3),(12,-4,8),(3,3,0.5)])
