import numpy as np
from mininec.mininec import *
M=np.array([1,1,-1.])
def ff_ref(m,th,ph,exact=False):
    k=m.w; th=np.radians(th); ph=np.radians(ph)
    rh=np.array([np.sin(th)*np.cos(ph),np.sin(th)*np.sin(ph),np.cos(th)])
    th_=np.array([np.cos(th)*np.cos(ph),np.cos(th)*np.sin(ph),-np.sin(th)]); ph_=np.array([-np.sin(ph),np.cos(ph),0])
    N=np.zeros(3,complex)
    for p,I in zip(m.pulses,m.current):
        paths=[(p.ends[0],p.point,p.ends[1],1.0)]
        if m.media is not None and not p.ground.any(): paths.append((p.ends[0]*M,p.point*M,p.ends[1]*M,-1.0))
        for e0,pt,e1,sg in paths:
            for a,b in (((e0+pt)/2,pt),(pt,(pt+e1)/2)):
                L=np.linalg.norm(b-a); t=(b-a)/L
                if exact:
                    c=(a+b)/2; x=k*L/2*(rh@t); ph_f=np.exp(1j*k*(rh@c))*np.sinc(x/np.pi)
                else: ph_f=np.exp(1j*k*(rh@pt))
                N+=sg*I*k*L*t*ph_f
    return -1j*29.979221*(N@th_), -1j*29.979221*(N@ph_)
def check(m,dist=0,pwr=None):
    m.compute(); zen=Angle(3,17,6 if m.media is None else 5); azi=Angle(-20,47,5)
    m.compute_far_field(zen,azi,pwr=pwr,dist=dist)
    ff=m.far_field; mx=max(np.abs(ff.e_theta).max(),np.abs(ff.e_phi).max())
    e1=e2=0
    for ia,a in enumerate(azi.angle_deg()):
        for iz,z in enumerate(zen.angle_deg()):
            sc=np.sqrt((pwr or m.power)/m.power)/(dist or 1)
            et,ep=ff_ref(m,z,a); et*=sc; ep*=sc
            e1=max(e1,abs(ff.e_theta[ia,iz]-et),abs(ff.e_phi[ia,iz]-ep))
            et,ep=ff_ref(m,z,a,True); et*=sc; ep*=sc
            e2=max(e2,abs(ff.e_theta[ia,iz]-et),abs(ff.e_phi[ia,iz]-ep))
            g=10**(ff.gain[iz,ia]/10); P=pwr or m.power
            gt=np.array([abs(ff.e_theta[ia,iz])**2,abs(ff.e_phi[ia,iz])**2])*(dist or 1)**2/59.96/P
            assert np.allclose(g[:2],gt,rtol=2e-4,atol=1e-20),(g,gt)
    print('point-sum err/max %.2e exact-integral err/max %.2e'%(e1/mx,e2/mx))
w=lambda:[Wire(10,0,0,0.1,0.3,0.2,0.5,0.002),Wire(10,0.3,0.2,0.5,0.9,0.1,0.6,0.002),Wire(7,0.2,-0.4,0.9,0.3,0.2,0.5,0.003)]
m=Mininec(100,w()); m.register_source(Excitation(1+0.5j),4); check(m)
m=Mininec(100,w(),media=[ideal_ground]); m.register_source(Excitation(1+0.5j),4); check(m,dist=1000,pwr=100)
w2=[Wire(10,0,0,0.0,0.3,0.2,0.5,0.002),Wire(10,0.3,0.2,0.5,0.9,0.1,0.6,0.002),Wire(7,0.2,-0.4,0.0,0.3,0.2,0.5,0.003)]
m=Mininec(300,w2,media=[ideal_ground]); m.register_source(Excitation(1+0.5j),0); check(m,dist=10)
