import numpy as np
from mininec.mininec import *
def mk(): return [Wire(8,0,0,0,0.5,0.2,2.2,0.003),Wire(6,0.5,0.2,2.2,2.5,0.2,2.6,0.003)]
def run(media,zen=Angle(0,8,12),azi=Angle(0,40,9)):
    m=Mininec(30,mk(),media=media); m.register_source(Excitation(1+0j),0); m.compute(); m.compute_far_field(zen,azi); return m
mi=run([ideal_ground])
for sig in (1e-2,1,1e2,1e4,1e6,1e8,1e10,1e12):
    m=run([Medium(13,sig)])
    d=np.abs(m.far_field.gain-mi.far_field.gain)[mi.far_field.gain>-60]
    print('sigma %.0e cur diff %.1e  max gain diff %.3e dB'%(sig,np.abs(m.current-mi.current).max(),d.max()))
# split
a=run([Medium(13,0.005,0,coord=7.0),Medium(5,0.001,-1)])
b=run([Medium(13,0.005,0,coord=3.0),Medium(13,0.005,0,coord=7.0),Medium(5,0.001,-1)])
print('split first', np.abs(a.far_field.gain-b.far_field.gain).max())
b=run([Medium(13,0.005,0,coord=7.0),Medium(5,0.001,-1,coord=20),Medium(5,0.001,-1)])
print('split second', np.abs(a.far_field.gain-b.far_field.gain).max())
# further medium beyond reflection pts: theta max 88 -> z tan = 2.6*28.6=75 
b=run([Medium(13,0.005,0,coord=7.0),Medium(5,0.001,-1,coord=500),Medium(80,4,-3)])
print('far medium', np.abs(a.far_field.gain-b.far_field.gain).max())
for bnd in ('circular',):
    a=run([Medium(13,0.005,0,coord=7.0,boundary=bnd),Medium(5,0.001,-1)])
    b=run([Medium(13,0.005,0,coord=7.0,boundary=bnd),Medium(5,0.001,-1,coord=500),Medium(80,4,-3)])
    print(bnd,'far medium', np.abs(a.far_field.gain-b.far_field.gain).max())
    a=run([Medium(13,0.005,0,coord=7.0,boundary=bnd,nradials=12,radius=0.001),Medium(5,0.001,-1)])
    b=run([Medium(13,0.005,0,coord=7.0,boundary=bnd,nradials=12,radius=0.001),Medium(5,0.001,-1,coord=20),Medium(5,0.001,-1)])
    print(bnd,'radials split second', np.abs(a.far_field.gain-b.far_field.gain).max())
