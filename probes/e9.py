import numpy as np
from mininec.mininec import *
M=np.array([1,1,-1.])
def rel(a,b): return abs(a-b)/abs(b)
def mk(ws): return [Wire(n,*a,*b,r) for n,a,b,r in ws]
def case(name,f,ws,gsrc,fsrc):
    mg=Mininec(f,mk(ws),media=[ideal_ground])
    for i,t,v in gsrc: mg.register_source(Excitation(v),i,t)
    mg.compute()
    wf=mk(ws)+[Wire(n,*(np.array(a)*M),*(np.array(b)*M),r) for n,a,b,r in ws]
    mf=Mininec(f,wf)
    for i,t,v in fsrc: mf.register_source(Excitation(v),i,t)
    mf.compute()
    zg=[s.impedance for s in mg.sources]; zf=[s.impedance for s in mf.sources]
    print(name,zg,zf,'cond %.0f %.0f'%(np.linalg.cond(mg.Z),np.linalg.cond(mf.Z)))
    return mg,mf
case('vert',30,[(8,(0,0,0),(0,0,2.3),0.003)],[(0,1,1)],[(0,2,2)])
case('slope',30,[(8,(0,0,0),(1,0.5,2.0),0.003)],[(0,1,1)],[(0,2,2)])
case('elev',30,[(7,(0.5,3,1.5),(2.5,3.5,1.0),0.002)],[(3,1,1)],[(3,1,1),(3,2,-1)])
case('elev horiz',30,[(7,(0.5,3,1.5),(2.5,3.5,1.5),0.002)],[(3,1,1)],[(3,1,1),(3,2,-1)])
case('elev vert',30,[(7,(0.5,3,1.5),(0.5,3,3.5),0.002)],[(3,1,1)],[(3,1,1),(3,2,-1)])
case('slope+L',30,[(8,(0,0,0),(1,0.5,2.0),0.003),(6,(1,0.5,2.0),(3,0.5,2.2),0.003)],[(0,1,1)],[(0,3,2)])
ws=[(8,(0,0,0),(1,0.5,2.0),0.003),(6,(1,0.5,2.0),(3,0.5,2.2),0.003),(7,(0.5,3,1.5),(2.5,3.5,1.0),0.002)]
case('comb s1',30,ws,[(0,1,1)],[(0,4,2)])
case('comb s2',30,ws,[(3,3,1)],[(3,3,1),(3,6,-1)])
mg,mf=case('comb both',30,ws,[(0,1,1),(3,3,0.5j)],[(0,4,2),(3,3,0.5j),(3,6,-0.5j)])
mg.compute_far_field(Angle(0,10,10),Angle(0,30,12)); mf.compute_far_field(Angle(0,10,10),Angle(0,30,12))
d=mg.far_field.gain[...,2]-mf.far_field.gain[...,2]; msk=mg.far_field.gain[...,2]>-30
print('gain diff', d[msk].min(), d[msk].max())
mg,mf=case('comb both fixed',30,ws,[(0,1,1),(3,3,0.5j)],[(0,4,-2),(3,3,0.5j),(3,6,-0.5j)])
mg.compute_far_field(Angle(0,10,10),Angle(0,30,12)); mf.compute_far_field(Angle(0,10,10),Angle(0,30,12))
d=mg.far_field.gain[...,2]-mf.far_field.gain[...,2]; msk=mg.far_field.gain[...,2]>-30
print('gain diff', d[msk].min(), d[msk].max())
print(rel(mg.sources[0].impedance, mf.sources[0].impedance/2), rel(mg.sources[1].impedance, mf.sources[1].impedance))
