import numpy as np, collections
from mininec.taper import taper1, taper2, Taper_Error
rng=np.random.default_rng(5)
stats=collections.Counter(); worst=collections.defaultdict(float); ex={}
for it in range(40000):
    n=int(rng.integers(2,60)) if rng.random()<0.9 else int(rng.integers(60,201))
    L=10**rng.uniform(-2,2); r=L/n/10**rng.uniform(0.5,4)
    kind=rng.integers(0,3)
    kw={}
    if rng.random()<0.4: kw['min_t']=L/n*rng.uniform(0.01,1.0)
    if rng.random()<0.4: kw['max_t']=L/n*rng.uniform(1.0,8)
    p1=rng.normal(size=3); d=rng.normal(size=3); d/=np.linalg.norm(d); p2=p1+d*L
    try:
        if kind==2: segs=list(taper2(p1,p2,n,r,**kw))
        else: segs=list(taper1(p1,p2,n,r,end=int(kind),**kw))
    except Taper_Error: stats['taper_error']+=1; continue
    except AssertionError as e: stats['assert']+=1; ex.setdefault('assert',(n,L,r,kind,kw)); continue
    except Exception as e: stats[type(e).__name__]+=1; ex.setdefault(type(e).__name__,(n,L,r,kind,kw,str(e))); continue
    stats['ok']+=1
    ls=np.array([np.linalg.norm(b-a) for a,b in segs])
    if len(segs)!=n: stats['count']+=1; ex.setdefault('count',(n,L,r,kind,kw))
    gaps=max(np.linalg.norm(segs[i][1]-segs[i+1][0]) for i in range(n-1))
    if gaps>1e-12*L or np.linalg.norm(segs[0][0]-p1)>0 or np.linalg.norm(segs[-1][1]-p2)>0: stats['chain']+=1
    if (ls<=0).any(): stats['nonpos']+=1; ex.setdefault('nonpos',(n,L,r,kind,kw,ls))
    mn=max(2.5*r,kw.get('min_t',0))
    if ls.min()<mn*(1-1e-9): stats['below_min']+=1; ex.setdefault('below_min',(n,L,r,kind,kw,ls.min(),mn))
    if 'max_t' in kw and ls.max()>kw['max_t']*(1+1e-9): stats['above_max']+=1; ex.setdefault('above_max',(n,L,r,kind,kw,ls.max()))
    seq=ls if kind==0 else ls[::-1] if kind==1 else None
    if seq is not None:
        ratio=(seq[1:]/seq[:-1])
        if ratio.max()>2.1: stats['ratio>2.1']+=1; ex.setdefault('ratio',(n,L,r,kind,kw,ratio.max()))
        if ratio.min()<1-1e-9: stats['not growing']+=1; ex.setdefault('notgrow',(n,L,r,kind,kw,ratio.min(),ls))
    else:
        h=n//2; a=ls[:h]; b=ls[::-1][:h]
        if not np.allclose(a,b,rtol=1e-6): stats['asym']+=1; ex.setdefault('asym',(n,L,r,kind,kw,ls))
        ratio=a[1:]/a[:-1] if h>1 else np.array([1.])
        if ratio.max()>2.1: stats['ratio>2.1 t2']+=1
        if ratio.min()<1-1e-9: stats['notgrow t2']+=1; ex.setdefault('notgrow2',(n,L,r,kind,kw,ls))
print(stats)
for k,v in ex.items(): print(k,v)
