import numpy as np
from mininec.mininec import *
from mininec.mininec import Rotation_Matrix
def rel(a,b): return abs(a-b)/abs(b)
def mk(ws): return [Wire(n,*a,*b,r) for n,a,b,r in ws]
rng=np.random.default_rng(3)
def run(f,ws,src,media=None):
    m=Mininec(f,mk(ws),media=media)
    for i,t,v in src: m.register_source(Excitation(v),i,t)
    m.compute(); return m
ws=[(8,(0,0,0.5),(1,0.5,2.0),0.003),(6,(1,0.5,2.0),(3,0.5,2.2),0.003),(7,(1,0.5,2.0),(2.5,3.5,1.0),0.002)]
src=[(2,1,1),(3,3,0.5j)]
m0=run(30,ws,src)
print('base Z',[s.impedance for s in m0.sources],np.linalg.cond(m0.Z))
# rotation+translation in coordinates
R=Rotation_Matrix([33,-71,128]).m; T=np.array([120.,-340,77])
ws2=[(n,tuple(R@np.array(a)+T),tuple(R@np.array(b)+T),r) for n,a,b,r in ws]
m1=run(30,ws2,src); print('rot+trans',[rel(a.impedance,b.impedance) for a,b in zip(m1.sources,m0.sources)], np.max(abs(m1.current-m0.current))/np.max(abs(m0.current)))
# scaling
s=37.0
ws3=[(n,tuple(np.array(a)*s),tuple(np.array(b)*s),r*s) for n,a,b,r in ws]
m2=run(30/s,ws3,src); print('scale',[rel(a.impedance,b.impedance) for a,b in zip(m2.sources,m0.sources)], np.max(abs(m2.current-m0.current))/np.max(abs(m0.current)))
# reverse wire 2 and wire 1
ws4=[(8,(1,0.5,2.0),(0,0,0.5),0.003),(6,(3,0.5,2.2),(1,0.5,2.0),0.003),(7,(1,0.5,2.0),(2.5,3.5,1.0),0.002)]
m3=Mininec(30,mk(ws4)); print([(w.tag,[ (p.idx,tuple(np.round(p.point,3))) for p in w.pulses]) for w in m3.geo])
def bypos(m): return {tuple(np.round(p.point,7)):p for p in m.pulses}
b0=bypos(m0)
def map_src(m,msrc):
    # place sources on same positions; sign from direction
    bp=bypos(m)
    for s in msrc.sources:
        p0=msrc.pulses[s.idx]; p=bp[tuple(np.round(p0.point,7))]
        d0=p0.ends[1]-p0.ends[0]; d=p.ends[1]-p.ends[0]
        sg=np.sign(d0@d)
        m.register_source(Excitation(s.voltage*sg),p.idx)
    m.compute()
    cur={k:(m.current[p.idx],p) for k,p in bp.items()}
    err=0
    for k,p0 in bypos(msrc).items():
        c,p=cur[k]; sg=np.sign((p0.ends[1]-p0.ends[0])@(p.ends[1]-p.ends[0]))
        err=max(err,abs(c*sg-msrc.current[p0.idx]))
    return [rel(a.impedance,b.impedance) for a,b in zip(m.sources,msrc.sources)], err/np.max(abs(msrc.current))
print('reverse',map_src(m3,m0))
# reorder
ws5=[ws[2],ws[0],ws[1]]
m4=Mininec(30,mk(ws5)); print('reorder',map_src(m4,m0))
# split wire 1 at seg boundary 3/8
a=np.array(ws[0][1]);b=np.array(ws[0][2]); mid=a+(b-a)*3/8
ws6=[(3,tuple(a),tuple(mid),0.003),(5,tuple(mid),tuple(b),0.003),ws[1],ws[2]]
m5=Mininec(30,mk(ws6)); print('split',map_src(m5,m0))
