import numpy as np, re, inspect
import mininec.mininec as mm
src=inspect.getsource(mm.Mininec.nf_helper)
src=src.replace("""        u           = self.psi (v2, vv, k, 0.5, pidx, exact = False) \\
                      [..., np.newaxis]""","""        u           = \\
            ( self.psi (v2, vv, k, 0.5, pidx, exact = False)
            * self.pulses.sign [..., 1][pidx]
            ) [..., np.newaxis]""")
src=src.replace("u * d1 [pidx] * v7","u * d2 [pidx] * v7")
import textwrap
ns={}
exec(textwrap.dedent(src), mm.__dict__, ns)
mm.Mininec.nf_helper=ns['nf_helper']
exec(open('e6.py').read().split("print('straight dipole')")[0])
from mininec.mininec import *
print('bent');m=Mininec(7,[Wire(5, 0, 0, 0, 10, 0, 0, 0.01),Wire(5,10,0,0,10,0,10,0.01)]); m.register_source(Excitation(1+0j),2); check(m,[(1,2,3),(12,-4,8),(30,30,10)])
print('bent end2-end2');m=Mininec(7,[Wire(5, 0, 0, 0, 10, 0, 0, 0.01),Wire(5,10,0,10,10,0,0,0.012)]); m.register_source(Excitation(1+0j),2); check(m,[(1,2,3),(12,-4,8),(30,30,10)])
print('bent end1-end1');m=Mininec(7,[Wire(5, 10, 0, 0, 0, 0, 0, 0.01),Wire(6,10,0,0,10,0,10,0.012)]); m.register_source(Excitation(1+0j),2); check(m,[(1,2,3),(12,-4,8),(30,30,10)])
print('gnd end2');m=Mininec(7,[Wire(8, 0, 0, 10, 0, 0, 0, 0.01)],media=[ideal_ground]); m.register_source(Excitation(1+0j),7); check(m,[(1,2,3),(12,-4,8),(3,3,0.5)])
print('gnd end2 sloped');m=Mininec(7,[Wire(8, 3, 1, 10, 0, 0, 0, 0.01)],media=[ideal_ground]); m.register_source(Excitation(1+0j),7); check(m,[(1,2,3),(12,-4,8),(3,3,0.5)])
