import numpy as np, sys, collections
from mininec.mininec import *
def model_pulses(wires, ground, tol):
    """wires: list of (nseg, p1, p2) in object order (already tag-sorted). Returns list of pulses per wire:
       each pulse = (point, (wireA,segA_index), (wireB,segB_index))"""
    ends=[]  # (wire index, end idx, point)
    reps=[]  # junction representatives: list of dict(point, members=[(w,e)])
    out=[[] for _ in wires]
    def grounded(p): return ground and abs(p[2])<tol
    junc_of={}
    for w,(n,p1,p2) in enumerate(wires):
        for e,p in enumerate((p1,p2)):
            if grounded(p): continue
            for j in reps:
                if any(np.linalg.norm(p-q)<=tol for q in j['pts']):
                    j['members'].append((w,e)); j['pts'].append(p); junc_of[(w,e)]=j; break
            else:
                j=dict(pts=[p],members=[(w,e)]); reps.append(j); junc_of[(w,e)]=j
    for w,(n,p1,p2) in enumerate(wires):
        # end 1
        if grounded(p1): out[w].append(('gnd',p1,(w,0),(w,0)))
        else:
            j=junc_of[(w,0)]; first=j['members'][0]
            if first!=(w,0) and first[0]!=w: out[w].append(('junc',p1,(first[0],0 if first[1]==0 else wires[first[0]][0]-1),(w,0)))
        for i in range(n-1):
            out[w].append(('int',p1+(p2-p1)*(i+1)/n,(w,i),(w,i+1)))
        if grounded(p2): out[w].append(('gnd',p2,(w,n-1),(w,n-1)))
        else:
            j=junc_of[(w,1)]; first=j['members'][0]
            if first!=(w,1): out[w].append(('junc',p2,(w,n-1),(first[0],0 if first[1]==0 else wires[first[0]][0]-1)))
    return out, reps
def gen(rng):
    ground=rng.random()<0.5
    nw=int(rng.integers(1,7)); pts=[rng.uniform(-1,1,3)*np.array([1,1,0.5])+np.array([0,0,0.8 if ground else 0]) for _ in range(4)]
    if ground:
        for k in range(2): 
            if rng.random()<0.5: pts.append(np.array([rng.uniform(-1,1),rng.uniform(-1,1),0.0]))
    wires=[]
    for _ in range(nw):
        i,j=rng.choice(len(pts),2,replace=False); a,b=pts[i].copy(),pts[j].copy()
        if rng.random()<0.3: b=rng.uniform(-1,1,3)*np.array([1,1,0.5])+np.array([0,0,0.8 if ground else 0])
        if ground and a[2]==0 and b[2]==0: continue
        n=int(rng.integers(1,6))
        wires.append([n,a,b])
    if not wires: return None
    minseg=min(np.linalg.norm(b-a)/n for n,a,b in wires)
    for w in wires:
        for e in (1,2):
            u=rng.random()
            if u<0.3 and not (ground and w[e][2]==0):
                d=rng.normal(size=3); d/=np.linalg.norm(d); w[e]=w[e]+d*minseg*rng.choice([0.3e-3,3e-3])
    return ground,wires
rng=np.random.default_rng(int(sys.argv[1])); st=collections.Counter()
for it in range(3000):
    g=gen(rng)
    if g is None: continue
    ground,wires=g
    # at most one wire end per ground point
    gp=[tuple(p) for n,a,b in wires for p in (a,b) if ground and p[2]==0]
    if len(gp)!=len(set(gp)): st['skip multi gnd']+=1; continue
    try: m=Mininec(10,[Wire(n,*a,*b,1e-4) for n,a,b in wires],media=[ideal_ground] if ground else None)
    except ValueError as e: st['reject '+str(e)[:30]]+=1; continue
    except Exception as e: st['EXC '+type(e).__name__]+=1; print('EXC',type(e).__name__,e,ground,wires); continue
    minseg=min(s.seg_len for w in m.geo for s in w.segments)
    mp,reps=model_pulses([(n,a,b) for n,a,b in wires],ground,minseg*1e-3)
    exp=sum(n-1 for n,a,b in wires)+len(gp)+sum(len(j['members'])-1 for j in reps)
    got=[[tuple(np.round(p.point,9)) for p in w.pulses] for w in m.geo]
    want=[[tuple(np.round(p[1],9)) for p in w] for w in mp]
    okc = len(m.pulses)==exp
    okp = all(len(a)==len(b) and np.allclose(a,b,atol=minseg*2e-3) if len(a) else len(a)==len(b) for a,b in zip(got,want))
    st[(okc,okp)]+=1
    if not (okc and okp) and st[(okc,okp)]<3: print(ground,[(n,list(np.round(a,4)),list(np.round(b,4))) for n,a,b in wires],len(m.pulses),exp,[len(x) for x in got],[len(x) for x in want])
print(st)
