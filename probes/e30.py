import numpy as np
from mininec.mininec import *
from mininec.mininec import main
class A: mininec_version='9'
def read_basic(txt):
    L=txt.split('\n'); i=0
    def nxt():
        nonlocal i; v=L[i]; i+=1; return v
    assert nxt()=='D'; nxt(); f=float(nxt()); env=nxt(); media=None
    if env=='-1':
        nm=int(nxt()); media=[]
        if nm==0: media=[ideal_ground]
        else: raise NotImplementedError
    nw=int(nxt()); wires=[]
    for _ in range(nw):
        n=int(nxt()); p1=[float(x) for x in nxt().split(',')]; p2=[float(x) for x in nxt().split(',')]; r=float(nxt()); assert nxt()=='N'
        wires.append((n,p1,p2,r))
    assert nxt()=='N'
    ns=int(nxt()); src=[]
    for _ in range(ns):
        p,mag,ph=nxt().split(','); src.append((int(p),float(mag),float(ph)))
    nl=int(nxt())
    return f,media,wires,src,L[i:]
def roundtrip(argv):
    m=main(argv,return_mininec=True); m.compute()
    txt=m.as_basic_input(A)
    f,media,wires,src,rest=read_basic(txt)
    m2=Mininec(f,[Wire(n,*p1,*p2,r) for n,p1,p2,r in wires],media=media)
    same=len(m.pulses)==len(m2.pulses) and all(np.allclose(a.point,b.point,atol=1e-9) for a,b in zip(m.pulses,m2.pulses))
    for p,mag,ph in src: m2.register_source(Excitation(mag,ph),p-1)
    m2.compute()
    print('pulses',len(m.pulses),len(m2.pulses),'same order',same,'Z',[s.impedance for s in m.sources],[s.impedance for s in m2.sources], 'src',src)
roundtrip(['-w','6,0,0,0,0,0,6.3,0.001','--taper-wire=1,2','-w','3,0,0,6.3,3,0,8,0.001','--excitation-pulse=2'])
roundtrip(['-w','3,0,0,6.3,3,0,8,0.001','-w','6,0,0,0,0,0,6.3,0.001','--taper-wire=2,1','--excitation-pulse=2','--medium=0,0,0'])
roundtrip(['-f','100','-a','8,0.5,0,180,0.001','-w','4,-0.5,0,0,-0.5,0,-0.6,0.001','--excitation-pulse=4','--excitation-voltage=1+1j','--excitation-pulse=2,2','--excitation-voltage=2j'])
roundtrip(['-f','100','-a','8,0.5,0,180,0.001','--geo-translate=1,0,0,0.0','--medium=0,0,0','--excitation-pulse=1'])
