import numpy as np
from mininec.mininec import *
m=Mininec(7,[Wire(10, 0, 0, 0, 15, 8, 12, 0.01)]); m.register_source(Excitation(1+0j),4); m.compute()
lam=m.wavelen
for nl in (5,20,100,1000):
    th,ph=np.radians(57.),np.radians(133.)
    rh=np.array([np.sin(th)*np.cos(ph),np.sin(th)*np.sin(ph),np.cos(th)]); r=nl*lam
    th_=np.array([np.cos(th)*np.cos(ph),np.cos(th)*np.sin(ph),-np.sin(th)]); ph_=np.array([-np.sin(ph),np.cos(ph),0])
    pt=rh*r
    m.compute_near_field(pt,[1,1,1],[1,1,1],pwr=100.)
    E=np.array(m.e_field[0]); H=np.array(m.h_field[0])
    m.compute_far_field(Angle(57,0,1),Angle(133,0,1),pwr=100.,dist=r)
    et=m.far_field.e_theta[0,0]; ep=m.far_field.e_phi[0,0]
    Eff=(et*th_+ep*ph_)*np.exp(-1j*m.w*r)
    print(nl,'|E|/|H|=%.3f'%(np.linalg.norm(E)/np.linalg.norm(H)),'radial frac E %.2e H %.2e'%(abs(E@rh)/np.linalg.norm(E),abs(H@rh)/np.linalg.norm(H)),'E vs ff complex rel %.2e  mag rel %.2e'%(np.linalg.norm(E-Eff)/np.linalg.norm(Eff), abs(np.linalg.norm(E)-np.linalg.norm(Eff))/np.linalg.norm(Eff)))
