import random, io, contextlib, traceback, collections, sys, re, tempfile, os, warnings
warnings.filterwarnings('ignore')
import numpy as np
np.seterr(all='ignore')
from mininec.mininec import main
rnd=random.Random(int(sys.argv[1]))
HOST=['0','-1','1e-300','1e300','nan','inf','-inf','','x','99999']
def num(valid):
    return valid if rnd.random()<0.8 else rnd.choice(HOST)
def wire(tag=None):
    n=num(str(rnd.randint(1,12))); c=[num('%.3f'%rnd.uniform(-3,3)) for _ in range(6)]; r=num(rnd.choice(['0.001','0.01','1e-5']))
    parts=([str(tag)] if tag else [])+[n]+c+[r]
    if rnd.random()<0.05: parts=parts[:-1]
    if rnd.random()<0.05: parts.append('1')
    return ','.join(parts)
def gen():
    a=[]
    if rnd.random()<0.7: a+=['-f',num(rnd.choice(['7','14.2','300']))]
    nw=rnd.randint(0,3)
    for i in range(nw): a+=['-w',wire(rnd.choice([None,None,i+1,5]))]
    if rnd.random()<0.15: a+=['-a',','.join([num('6'),num('1'),num('0'),num('90'),num('0.001')])]
    if rnd.random()<0.15: a+=['--helix',','.join([num('12'),num('1'),num('0.5'),num('0.001'),num('0.2'),num('0.2')])]
    if rnd.random()<0.4:
        a+=['--medium',','.join([num(rnd.choice(['0','13'])),num(rnd.choice(['0','0.005'])),num('0')]+([num('5')] if rnd.random()<0.4 else []))]
        if rnd.random()<0.3: a+=['--medium',','.join([num('5'),num('0.001'),num('-1')])]
        if rnd.random()<0.3: a+=['--radial-count',num('8')]
        if rnd.random()<0.3: a+=['--radial-radius',num('0.001')]
        if rnd.random()<0.3: a+=['--boundary',rnd.choice(['linear','circular'])]
    for _ in range(rnd.randint(0,2)):
        a+=['--excitation-pulse',rnd.choice([num('1'),num('2')+','+num('1'),num('3')])]
        if rnd.random()<0.7: a+=['--excitation-voltage',rnd.choice(['1','1+1j','0','nan','-2.5j','1e300'])]
    if rnd.random()<0.3: a+=['--load',rnd.choice(['50','50-3j','0','nan','infj'])]
    if rnd.random()<0.2: a+=['--rlc-load',','.join(num(x) for x in ['1','1e-6','1e-9'][:rnd.randint(1,3)])]
    if rnd.random()<0.2: a+=['--trap-load',','.join(num(x) for x in ['1','1e-6','1e-9'][:rnd.randint(2,3)])]
    if rnd.random()<0.2: a+=['--laplace-load-a',','.join(num(x) for x in ['1','1e-6'])]; 
    if rnd.random()<0.2: a+=['--laplace-load-b',','.join(num(x) for x in ['0','1e-6','1e-12'])]
    for _ in range(rnd.randint(0,2)): a+=['--attach-load',','.join([num('1'),rnd.choice(['all',num('1')])]+([num('1')] if rnd.random()<0.3 else []))]
    if rnd.random()<0.15: a+=['--skin-effect-conductivity',num('1e6')+(','+num('1') if rnd.random()<0.3 else '')]
    if rnd.random()<0.1: a+=['--skin-effect-resistivity',num('1e-6')]
    if rnd.random()<0.15: a+=['--insulation-load',','.join([num('0.02'),num('3')])]
    if rnd.random()<0.15: a+=['--taper-wire',','.join([num('1'),num(rnd.choice('123'))]+([num('0.01')] if rnd.random()<0.3 else []))]
    if rnd.random()<0.15: a+=['--geo-rotate',','.join([num('1'),num('10'),num('20'),num('30')])]
    if rnd.random()<0.15: a+=['--geo-translate',','.join([num('2'),num('1'),num('1'),num('1')])]
    if rnd.random()<0.1: a+=['--geo-scale',num('2')]
    a+=['--theta',','.join([num('0'),num('30'),num('3')])] if rnd.random()<0.8 else []
    a+=['--phi',','.join([num('0'),num('90'),num('2')])] if rnd.random()<0.8 else []
    if rnd.random()<0.25: a+=['--near-field',','.join([num('1'),num('1'),num('1'),num('0.5'),num('0.5'),num('0.5'),num('1'),num('2'),num('1')])]
    for _ in range(rnd.randint(0,2)): a+=['--option',rnd.choice(['far-field','near-field','far-field-absolute','none'])]
    if rnd.random()<0.1: a+=['--ff-power',num('100')]
    if rnd.random()<0.1: a+=['--ff-distance',num('1000')]
    if rnd.random()<0.1: a+=['--nf-power',num('100')]
    if rnd.random()<0.1: a+=['--frequency-steps',num('2'),'--frequency-increment',num('0.5')]
    return a
buckets=collections.Counter(); ex={}; outc=collections.Counter()
for it in range(int(sys.argv[2])):
    argv=gen(); out=io.StringIO(); err=io.StringIO()
    if any(x=='99999' for w in argv for x in w.split(',')[:1]) : pass
    try:
        with contextlib.redirect_stdout(out), contextlib.redirect_stderr(err):
            r=main(argv,f_err=err)
        txt=out.getvalue()
        if r is None:
            if re.search(r'\b(nan|inf)\b',txt,re.I): k=('NANREPORT',); buckets[k]+=1; ex.setdefault(k,argv)
            outc['report']+=1
        elif r==23:
            lines=[l for l in (out.getvalue()+err.getvalue()).split('\n') if l.strip()]
            if len(lines)!=1: k=('DIAGLINES',len(lines)); buckets[k]+=1; ex.setdefault(k,argv)
            outc['diag']+=1
        else: buckets[('RET',r)]+=1
    except SystemExit as e: outc['usage']+=1
    except BaseException as e:
        tb=traceback.extract_tb(e.__traceback__); fr=[f for f in tb if '/mininec/' in f.filename]
        k=(type(e).__name__, fr[-1].name if fr else '?', fr[-1].lineno if fr else 0); buckets[k]+=1; ex.setdefault(k,argv)
print(outc); 
for k,v in sorted(buckets.items(),key=lambda x:-x[1]): print(v,k,' '.join(ex[k])[:200])
