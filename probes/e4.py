import time, numpy as np
from mininec.mininec import *
from numpy.polynomial.legendre import leggauss
def prad_ratio(m, nth=48, nph=64, ground=False):
    # Gauss-Legendre in u=cos(theta), one far-field call per theta node (inc=0,number=1 not needed: use arbitrary list?)
    x,wt = leggauss(nth)
    if ground:
        u = (x+1)/2; wt = wt/2
    else:
        u = x
    th = np.degrees(np.arccos(u))
    tot=0
    for t,wq in zip(th,wt):
        m.compute_far_field(Angle(t,0,1),Angle(0,360./nph,nph))
        g = 10**(m.far_field.gain[0,:,2]/10)
        tot += wq*g.mean()
    return tot/2   # (1/4pi) * 2pi * sum w g_mean  = sum/2
def check(m, ground=False):
    m.compute()
    t=time.time()
    r=prad_ratio(m,ground=ground)
    pin=sum(s.power for s in m.sources)
    papp=sum(abs(0.5*s.voltage*np.conj(s.current)) for s in m.sources)
    pload=0
    for l in m.loads:
        for p in l.pulses:
            z=l.impedance(m.f,p); pload+=0.5*z.real*abs(m.current[p.idx])**2
    print('Prad/Pin=%.5f Pload/Pin=%.5f  imbalance/apparent=%.5f t=%.2f cond=%.0f'%(r,pload/pin,(pin-pload-r*pin)/papp,time.time()-t,np.linalg.cond(m.Z)))
w=lambda:[Wire(10,0,0,0,0.3,0.2,0.5,0.002),Wire(10,0.3,0.2,0.5,0.9,0.1,0.6,0.002),Wire(10,0.3,0.2,0.5,0.2,-0.4,0.9,0.003)]
m=Mininec(100,w()); m.register_source(Excitation(1+0.5j),4); m.register_source(Excitation(0.3-1j),14); check(m)
m=Mininec(100,w()); m.register_source(Excitation(1+0.5j),4); m.register_load(Impedance_Load(50+20j),7); check(m)
m=Mininec(100,w(),media=[ideal_ground]); m.register_source(Excitation(1+0.5j),0); check(m,True)
m=Mininec(7,[Wire(10, 0, 0, 0, 21.414285, 0, 0, 0.001)]); m.register_source(Excitation(1+0j),4); check(m)
m=Mininec(7,[Wire(20, 0, 0, 10, 21.414285, 0, 10, 0.001)],media=[ideal_ground]); m.register_source(Excitation(1+0j),9); check(m,True)
m=Mininec(7,[Wire(20, 0, 0, 10, 21.414285, 0, 10, 0.001)],media=[Medium(13,0.005)]); m.register_source(Excitation(1+0j),9); check(m,True)
m=Mininec(7,[Wire(20, 0, 0, 0, 0, 0, 10, 0.001)],media=[Medium(13,0.005,nradials=16,radius=0.001,coord=10),Medium(13,0.005,height=0)]); m.register_source(Excitation(1+0j),0); check(m,True)
