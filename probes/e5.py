import time, numpy as np
from scipy.integrate import quad
from mininec.mininec import *
def psi_ref(obs, a, b, r, k, thin):
    # integral of exp(-jkR)/R ds along straight line a->b seen from obs
    L=np.linalg.norm(b-a)
    def R(t):
        d=np.linalg.norm(a+(b-a)*t-obs)
        return d if thin else np.sqrt(d*d+r*r)
    fr=lambda t: np.cos(k*R(t))/R(t)
    fi=lambda t: -np.sin(k*R(t))/R(t)
    re=quad(fr,0,1,epsabs=1e-13,epsrel=1e-12,limit=200)[0]
    im=quad(fi,0,1,epsabs=1e-13,epsrel=1e-12,limit=200)[0]
    return (re+1j*im)*L
class P:  # path pulse
    def __init__(s,e0,pt,e1,r0,r1): s.e0,s.pt,s.e1,s.r0,s.r1=map(np.asarray,(e0,pt,e1,r0,r1))
    def mirror(s):
        M=np.array([1,1,-1.]); return P(s.e0*M,s.pt*M,s.e1*M,s.r0,s.r1)
def F(m,n,k,srm):
    L0m=np.linalg.norm(m.pt-m.e0); L1m=np.linalg.norm(m.e1-m.pt)
    L0=np.linalg.norm(n.pt-n.e0); L1=np.linalg.norm(n.e1-n.pt)
    t0=(n.pt-n.e0)/L0; t1=(n.e1-n.pt)/L1
    mid0=(n.pt+n.e0)/2; mid1=(n.pt+n.e1)/2
    th0=n.r0<=srm; th1=n.r1<=srm
    # vector potential at m.pt from half legs
    pv=psi_ref(m.pt,mid0,n.pt,n.r0,k,th0); pu=psi_ref(m.pt,n.pt,mid1,n.r1,k,th1)
    test=(m.pt-m.e0)+(m.e1-m.pt)
    A=k*k/2*np.dot(pv*t0+pu*t1,test)
    mp=(m.pt+m.e1)/2; mm=(m.pt+m.e0)/2
    # scalar: charge on full legs
    s=( psi_ref(mm,n.pt,n.e1,n.r1,k,th1)-psi_ref(mp,n.pt,n.e1,n.r1,k,th1))/L1 \
     +( psi_ref(mp,n.e0,n.pt,n.r0,k,th0)-psi_ref(mm,n.e0,n.pt,n.r0,k,th0))/L0
    scale=k*k/2*(abs(pv)+abs(pu))*np.linalg.norm(test)+ (abs(psi_ref(mm,n.pt,n.e1,n.r1,k,th1))+abs(psi_ref(mp,n.pt,n.e1,n.r1,k,th1)))/L1+(abs(psi_ref(mp,n.e0,n.pt,n.r0,k,th0))+abs(psi_ref(mm,n.e0,n.pt,n.r0,k,th0)))/L0
    return A+s, scale
def pulses_of(m):
    out=[]
    for p in m.pulses:
        out.append((P(p.ends[0],p.point,p.ends[1],p.geo[0].r,p.geo[1].r), p.ground.any()))
    return out
def check(m):
    m.compute_impedance_matrix()
    ps=pulses_of(m); k=m.w; worst=0; cnt=0
    N=len(ps)
    rng=np.random.default_rng(1)
    pairs=[(i,j) for i in range(N) for j in range(N)]
    rng.shuffle(pairs)
    for i,j in pairs[:150]:
        pm,_=ps[i]; pn,gn=ps[j]
        sl=max(np.linalg.norm(pm.pt-pm.e0),np.linalg.norm(pm.e1-pm.pt),np.linalg.norm(pn.pt-pn.e0),np.linalg.norm(pn.e1-pn.pt))
        if np.linalg.norm(pm.pt-pn.pt)<2.5*sl: continue
        z,sc=F(pm,pn,k,m.srm)
        if m.media is not None and not gn:
            z2,sc2=F(pm,pn.mirror(),k,m.srm); z-=z2; sc+=sc2
        err=abs(m.Z[i,j]-z)/sc; cnt+=1
        if err>worst: worst=err; wi=(i,j,m.Z[i,j],z)
    print('pairs',cnt,'worst rel err %.2e'%worst, wi)
w=lambda:[Wire(10,0,0,0,0.3,0.2,0.5,0.002),Wire(10,0.3,0.2,0.5,0.9,0.1,0.6,0.002),Wire(7,0.2,-0.4,0.9,0.3,0.2,0.5,0.003)]
t=time.time()
check(Mininec(100,w()))
check(Mininec(100,w(),media=[ideal_ground]))
check(Mininec(20,w(),media=[ideal_ground]))   # thin: srm=1.5e-3 -> r=0.002 thick still; 
check(Mininec(5,w(),media=[ideal_ground]))   # srm=6e-3 thin
ww=[Wire(10,0,0,0,0.3,0.2,0.5,0.002),Wire(10,0.3,0.2,0.5,0.9,0.1,0.6,0.002),Wire(7,0.2,-0.4,0.0,0.3,0.2,0.5,0.003)]
ww[0].segtype=1
check(Mininec(100,ww,media=[ideal_ground]))
print(time.time()-t)
