#!/bin/sh
# Offline setup: third-party helper packages go to /verif/.deps (git-ignored).
set -e
cd "$(dirname "$0")"
WH=/opt/veriftools/wheels
PY=/venv/bin/python
mkdir -p .deps out evidence
need=""
$PY -c "import hypothesis" 2>/dev/null || need="$need hypothesis"
PYTHONPATH=.deps $PY -c "import mpmath" 2>/dev/null || need="$need mpmath"
PYTHONPATH=.deps $PY -c "import jsonschema" 2>/dev/null || need="$need jsonschema"
PYTHONPATH=.deps $PY -c "import atheris" 2>/dev/null || need="$need atheris"
if [ -n "$need" ]; then
    $PY -m pip install -q --no-index --find-links $WH --target .deps $need
fi
PYTHONPATH=.deps $PY -c "import hypothesis, mpmath, jsonschema; print('deps ok', hypothesis.__version__)"
# oracle self-tests (report parser on golden files, BASIC reader on .mini files)
PYTHONPATH=.deps:. $PY -m pv.selftest
